package main

// Driver of the "load" family (C19): persisted trees, then perturbations of the
// root record, of the loader's configuration and of the stored top node
// (hand-built nodes written with the harness's own encoders), each followed by
// LoadMast. The event carries what MustReject needs: whether the format is
// known, whether the top node is present and decodable (by the harness's
// lenient decoders under the loader's format), its key/value/link counts, its
// keys (integers), the recorded branch factor and height, the order in use.

import (
	"encoding/binary"
	"encoding/json"
	"fmt"
	"math/rand"

	"github.com/jrhy/mast"
)

type loadEvent struct {
	Op        string `json:"op"`
	ID        int    `json:"id"`
	Pert      string `json:"pert"`
	NF        string `json:"nf"`     // format the loader is told
	Stored    string `json:"stored"` // format the node bytes are in
	FmtKnown  bool   `json:"fmtknown"`
	HasLink   bool   `json:"haslink"`
	Present   bool   `json:"present"`
	Decodable bool   `json:"decodable"`
	NK        int    `json:"nk"`
	NV        int    `json:"nv"`
	NL        int    `json:"nl"`
	Keys      []int  `json:"keys"`
	Rev       bool   `json:"rev"`
	BF        int    `json:"bf"`
	Height    int    `json:"height"`
	Size      int    `json:"size"`
	Res       string `json:"res"`
	Msg       string `json:"msg"`
}

func encBin(keys, vals [][]byte, links []string) []byte {
	var buf []byte
	put := func(n int) {
		var t [10]byte
		l := binary.PutUvarint(t[:], uint64(n))
		buf = append(buf, t[:l]...)
	}
	put(len(keys))
	for _, k := range keys {
		put(len(k))
		buf = append(buf, k...)
	}
	put(len(vals))
	for _, v := range vals {
		put(len(v))
		buf = append(buf, v...)
	}
	put(len(links))
	for _, l := range links {
		put(len(l))
		buf = append(buf, l...)
	}
	return buf
}

func encV1(keys, vals [][]byte, links []string) []byte {
	s := `{"Key":[`
	for i, k := range keys {
		if i > 0 {
			s += ","
		}
		s += string(k)
	}
	s += `],"Value":[`
	for i, v := range vals {
		if i > 0 {
			s += ","
		}
		s += string(v)
	}
	if len(links) > 0 {
		s += `],"Link":[`
		for i, l := range links {
			if i > 0 {
				s += ","
			}
			if l == "" {
				s += "null"
			} else {
				s += `"` + l + `"`
			}
		}
	}
	return []byte(s + "]}")
}

// lenientDecode: structure only, trailing bytes tolerated.
func lenientDecode(nf string, b []byte) (*rawNode, bool) {
	if nf == "bin" {
		keys, rest, err := decodeUvarintSeq(b)
		if err != nil {
			return nil, false
		}
		vals, rest, err := decodeUvarintSeq(rest)
		if err != nil {
			return nil, false
		}
		links, _, err := decodeUvarintSeq(rest)
		if err != nil {
			return nil, false
		}
		n := &rawNode{Keys: keys, Vals: vals, LinkCount: len(links)}
		for _, l := range links {
			n.Links = append(n.Links, string(l))
		}
		return n, true
	}
	n, err := decodeV1Node(b)
	return n, err == nil
}

// loadEmptyCase: roots without a top node (a fresh root, the persisted root of an emptied tree): only the root record itself
// can be wrong.
func loadEmptyCase(id int, seed int64, out *json.Encoder) {
	rng := rand.New(rand.NewSource(seed))
	bf := []uint{2, 3, 4, 16}[rng.Intn(4)]
	nf := []string{"bin", "v1"}[rng.Intn(2)]
	st := newRecStore(fmt.Sprintf("loadempty-%d", id))
	o := nfOf(nf)
	o.BranchFactor = bf
	cfg := &mast.RemoteConfig{KeysLike: 0, ValuesLike: 0, StoreImmutablePartsWith: st}
	root := mast.NewRoot(&o)
	if rng.Intn(2) == 0 {
		m, err := root.LoadMast(ctx, cfg)
		if err != nil {
			panic(err)
		}
		n := 1 + rng.Intn(6)
		for i := 0; i < n; i++ {
			m.Insert(ctx, i, i)
		}
		if rng.Intn(2) == 0 {
			if _, err := m.MakeRoot(ctx); err != nil {
				panic(err)
			}
		}
		for i := 0; i < n; i++ {
			m.Delete(ctx, i, i)
		}
		root, err = m.MakeRoot(ctx)
		if err != nil {
			panic(err)
		}
	}
	for _, pert := range []string{"none", "format-bogus", "format-misspelt", "format-empty"} {
		r2 := *root
		switch pert {
		case "format-bogus":
			r2.NodeFormat = "v9.9.9unknown"
		case "format-misspelt":
			r2.NodeFormat = "V1Marshaler"
		case "format-empty":
			r2.NodeFormat = ""
		}
		ev := loadEvent{Op: "lroot", ID: id, Pert: "empty-root-" + pert, NF: nf, Stored: nf, Keys: []int{}}
		ev.FmtKnown = r2.NodeFormat == "" || r2.NodeFormat == "v1.1.5binary" || r2.NodeFormat == "v1marshaler"
		ev.BF, ev.Height, ev.Size = int(r2.BranchFactor), int(r2.Height), int(r2.Size)
		ev.HasLink = r2.Link != nil
		ev.Res, ev.Msg = guard(func() error {
			_, err := r2.LoadMast(ctx, cfg)
			return err
		})
		out.Encode(ev)
	}
}

func loadCase(id int, seed int64, out *json.Encoder) {
	rng := rand.New(rand.NewSource(seed))
	bf := []uint{2, 3, 4}[rng.Intn(3)]
	nf := []string{"bin", "v1"}[rng.Intn(2)]
	st := newRecStore(fmt.Sprintf("load-%d", id))
	o := nfOf(nf)
	o.BranchFactor = bf
	base := &mast.RemoteConfig{KeysLike: 0, ValuesLike: 0, StoreImmutablePartsWith: st}
	// the writer works through a node cache; the "-cached" perturbations hand the same (warm) cache to the loader
	cache := mast.NewNodeCache(1000)
	wcfg := *base
	wcfg.NodeCache = cache
	m, err := mast.NewRoot(&o).LoadMast(ctx, &wcfg)
	if err != nil {
		panic(err)
	}
	nkeys := 4 + rng.Intn(30)
	for i := 0; i < nkeys; i++ {
		k := rng.Intn(200)
		if rng.Intn(3) == 0 {
			k = (1 + rng.Intn(6)) * int(bf) * int(bf)
		}
		if err := m.Insert(ctx, k, k+1); err != nil {
			panic(err)
		}
	}
	root, err := m.MakeRoot(ctx)
	if err != nil {
		panic(err)
	}
	top, _ := st.get(*root.Link)
	rn, _ := lenientDecode(nf, top)
	fmtName := map[string]string{"bin": "v1.1.5binary", "v1": "v1marshaler"}
	other := map[string]string{"bin": "v1", "v1": "bin"}

	perts := []string{"none", "format-bogus", "format-swap", "format-empty", "height+1", "height+2", "height-1", "bf", "order-reversed",
		"link-missing", "node-garbage", "node-more-values", "node-fewer-values", "node-more-links", "node-fewer-links", "node-unordered", "node-duplicate", "node-unordered-first",
		"order-reversed-cached", "height+1-cached", "bf-cached", "node-empty-bytes", "node-truncated-links", "node-truncated-mid"}
	for _, pert := range perts {
		r2 := *root
		cfg := *base
		ev := loadEvent{Op: "lroot", ID: id, Pert: pert, NF: nf, Stored: nf, Rev: false, Keys: []int{}}
		loaderFmt := nf
		hand := func(keys []int, nvals int, links []string) {
			var kb, vb [][]byte
			for _, k := range keys {
				kb = append(kb, []byte(fmt.Sprint(k)))
			}
			for i := 0; i < nvals; i++ {
				vb = append(vb, []byte(fmt.Sprint(i)))
			}
			var b []byte
			if nf == "bin" {
				b = encBin(kb, vb, links)
			} else {
				b = encV1(kb, vb, links)
			}
			name := nodeName(b)
			st.m[name] = b
			r2.Link = &name
		}
		// keys of the real top node, as integers
		var topKeys []int
		for _, k := range rn.Keys {
			var v int
			json.Unmarshal(k, &v)
			topKeys = append(topKeys, v)
		}
		mult := int(bf) * int(bf) * int(bf) * int(bf) // layers >= 4 at this branch factor: never the reason for a rejection
		switch pert {
		case "format-bogus":
			r2.NodeFormat = "v9.9.9unknown"
		case "format-swap":
			r2.NodeFormat = fmtName[other[nf]]
			loaderFmt = other[nf]
		case "format-empty":
			r2.NodeFormat = ""
			loaderFmt = "v1"
		case "height+1":
			r2.Height++
		case "height+2":
			r2.Height += 2
		case "height-1":
			if r2.Height > 0 {
				r2.Height--
			}
		case "bf":
			r2.BranchFactor = []uint{2, 3, 4, 5, 16}[rng.Intn(5)]
		case "height+1-cached":
			r2.Height++
			cfg.NodeCache = cache
		case "bf-cached":
			r2.BranchFactor = []uint{2, 3, 4, 5, 16}[rng.Intn(5)]
			cfg.NodeCache = cache
		case "order-reversed", "order-reversed-cached":
			if pert == "order-reversed-cached" {
				cfg.NodeCache = cache
			}
			def := mast.DefaultKeyCompare(json.Marshal)
			cfg.KeyCompare = func(a, b interface{}) (int, error) { c, err := def(a, b); return -c, err }
			ev.Rev = true
		case "link-missing":
			name := nodeName([]byte(fmt.Sprintf("absent-%d", id)))
			r2.Link = &name
		case "node-garbage":
			b := []byte{0xff, 0xff, 0xff, 0xff, 0xff, 0xff, 0xff, 0xff, 0xff, 0xff, 0xff, 0x7b}
			name := nodeName(b)
			st.m[name] = b
			r2.Link = &name
		case "node-empty-bytes", "node-truncated-links", "node-truncated-mid":
			// the real top node cut short: to nothing, right before its link table, or in the middle
			b := append([]byte{}, top...)
			switch pert {
			case "node-empty-bytes":
				b = []byte{}
			case "node-truncated-mid":
				b = b[:len(b)/2]
			default:
				if nf == "bin" {
					_, rest, _ := decodeUvarintSeq(b)
					_, rest, _ = decodeUvarintSeq(rest)
					b = b[:len(b)-len(rest)]
				} else {
					b = b[:len(b)-3]
				}
			}
			name := nodeName(b)
			st.m[name] = b
			r2.Link = &name
		case "node-more-values":
			hand([]int{mult, 2 * mult}, 3, nil)
		case "node-fewer-values":
			hand([]int{mult, 2 * mult, 3 * mult}, 2, nil)
		case "node-more-links":
			hand([]int{mult, 2 * mult}, 2, []string{"", "", "", ""})
		case "node-fewer-links":
			hand([]int{mult, 2 * mult, 3 * mult}, 3, []string{"", ""})
		case "node-unordered":
			hand([]int{mult, 3 * mult, 2 * mult, 4 * mult}, 4, nil)
		case "node-unordered-first":
			hand([]int{2 * mult, mult, 3 * mult}, 3, nil)
		case "node-duplicate":
			hand([]int{mult, 2 * mult, 2 * mult}, 3, nil)
		}
		ev.NF = loaderFmt
		ev.FmtKnown = r2.NodeFormat == "" || r2.NodeFormat == "v1.1.5binary" || r2.NodeFormat == "v1marshaler"
		ev.BF, ev.Height, ev.Size = int(r2.BranchFactor), int(r2.Height), int(r2.Size)
		ev.HasLink = r2.Link != nil
		if r2.Link != nil {
			b, ok := st.get(*r2.Link)
			ev.Present = ok
			if ok {
				d, okd := lenientDecode(loaderFmt, b)
				ev.Decodable = okd
				if okd {
					ev.NK, ev.NV, ev.NL = len(d.Keys), len(d.Vals), d.LinkCount
					for _, k := range d.Keys {
						var v int
						if err := json.Unmarshal(k, &v); err != nil {
							ev.Decodable = false // keys are not integers under this format
							break
						}
						ev.Keys = append(ev.Keys, v)
					}
				}
			}
		}
		ev.Res, ev.Msg = guard(func() error {
			_, err := r2.LoadMast(ctx, &cfg)
			return err
		})
		out.Encode(ev)
		_ = topKeys
	}
	// ---- every strict prefix of the top node (a write or a download cut short at any byte)
	cuts := []int{}
	if len(top) <= 160 {
		for n := 0; n < len(top); n++ {
			cuts = append(cuts, n)
		}
	} else {
		for i := 0; i < 80; i++ {
			cuts = append(cuts, rng.Intn(len(top)))
		}
		if nf == "bin" {
			// ... and the boundaries of the three tables and of their count fields
			_, r1, _ := decodeUvarintSeq(top)
			_, r2, _ := decodeUvarintSeq(r1)
			for _, b := range []int{len(top) - len(r1), len(top) - len(r2)} {
				for d := -1; d <= 3; d++ {
					if b+d >= 0 && b+d < len(top) {
						cuts = append(cuts, b+d)
					}
				}
			}
		}
	}
	if nf == "bin" {
		// every count and length field of the top node replaced by one that cannot be right: more than the bytes that are left,
		// and values beyond the range of a signed 64-bit integer (what a flipped bit or a foreign writer can leave behind)
		offs := varintOffsets(top)
		if len(offs) > 24 {
			rng.Shuffle(len(offs), func(i, j int) { offs[i], offs[j] = offs[j], offs[i] })
			offs = offs[:24]
		}
		for _, off := range offs {
			_, w := binary.Uvarint(top[off:])
			for _, v := range []uint64{1 << 63, ^uint64(0), 1<<63 + 12345, uint64(len(top)) + 1, uint64(2*len(top)) + 7} {
				b := append([]byte{}, top[:off]...)
				b = binary.AppendUvarint(b, v)
				b = append(b, top[off+w:]...)
				name := nodeName(b)
				st.m[name] = b
				r2 := *root
				r2.Link = &name
				ev := loadEvent{Op: "lroot", ID: id, Pert: fmt.Sprintf("node-length-%d-at-%d-of-%d", v, off, len(top)), NF: nf, Stored: nf, Keys: []int{}, FmtKnown: true,
					HasLink: true, Present: true, BF: int(r2.BranchFactor), Height: int(r2.Height), Size: int(r2.Size)}
				cfg := *base
				ev.Res, ev.Msg = guard(func() error {
					_, err := r2.LoadMast(ctx, &cfg)
					return err
				})
				out.Encode(ev)
			}
		}
	}
	for _, n := range cuts {
		b := append([]byte{}, top[:n]...)
		name := nodeName(b)
		st.m[name] = b
		r2 := *root
		r2.Link = &name
		ev := loadEvent{Op: "lroot", ID: id, Pert: fmt.Sprintf("node-prefix-%d-of-%d", n, len(top)), NF: nf, Stored: nf, Keys: []int{}, FmtKnown: true,
			HasLink: true, Present: true, BF: int(r2.BranchFactor), Height: int(r2.Height), Size: int(r2.Size)}
		if d, okd := lenientDecode(nf, b); okd {
			// (a prefix that still parses as a whole node would have to be judged by its contents; none does in either format)
			ev.Decodable = true
			ev.NK, ev.NV, ev.NL = len(d.Keys), len(d.Vals), d.LinkCount
			for _, k := range d.Keys {
				var v int
				if err := json.Unmarshal(k, &v); err != nil {
					ev.Decodable = false
					break
				}
				ev.Keys = append(ev.Keys, v)
			}
		}
		cfg := *base
		ev.Res, ev.Msg = guard(func() error {
			_, err := r2.LoadMast(ctx, &cfg)
			return err
		})
		out.Encode(ev)
	}
}

// varintOffsets returns the offsets of the count and length fields of a node in the binary format (three tables, each a count
// followed by that many length-prefixed bodies)
func varintOffsets(b []byte) []int {
	var offs []int
	p := 0
	for t := 0; t < 3; t++ {
		n, w := binary.Uvarint(b[p:])
		if w <= 0 {
			return offs
		}
		offs = append(offs, p)
		p += w
		for i := uint64(0); i < n; i++ {
			l, w := binary.Uvarint(b[p:])
			if w <= 0 || uint64(len(b)-p-w) < l {
				return offs
			}
			offs = append(offs, p)
			p += w + int(l)
		}
	}
	return offs
}
