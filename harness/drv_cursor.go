package main

// Driver of the "cursor" family (C10): trees built by real histories (in
// memory, persisted and reloaded, partly dirty, never populated, emptied),
// then for each tree cursor walks (Min / Max / Ceil of every kind of probe,
// followed by random Forward/Backward sequences with Get after every move)
// and SeekIter from every probe, complete and stopped by the callback.

import (
	"encoding/json"
	"fmt"
	"math/rand"

	"github.com/jrhy/mast"
)

type curWalk struct {
	Start string   `json:"start"`
	P     int      `json:"p"`
	Moves []string `json:"moves"`
	Gets  [][]int  `json:"gets"`
	Res   string   `json:"res"`
	Msg   string   `json:"msg"`
}

type curSeek struct {
	P     int     `json:"p"`
	Ents  [][]int `json:"ents"`
	Res   string  `json:"res"`
	Stop  int     `json:"stop"`
	SEnts [][]int `json:"sents"`
	SRes  string  `json:"sres"`
	Msg   string  `json:"msg"`
}

type curEvent struct {
	Op          string    `json:"op"`
	ID          int       `json:"id"`
	Cfg         *mapCfg   `json:"cfg"`
	Mode        string    `json:"mode"`
	Ents        [][]int   `json:"ents"`
	Height      int       `json:"height"`
	Terms       bool      `json:"terms"`
	Term        []term    `json:"term"`
	Placeholder bool      `json:"placeholder"`
	Walks       []curWalk `json:"walks"`
	Seeks       []curSeek `json:"seeks"`
	NMoves      int       `json:"nmoves"`
	NOff        int       `json:"noff"`
}

func cursorCase(id int, seed int64, out *json.Encoder) {
	rng := rand.New(rand.NewSource(seed))
	cfg := mapCfg{ID: id, Src: "random"}
	cfg.Bf = []uint{2, 2, 3, 4, 16}[rng.Intn(5)]
	cfg.NK = 3 + rng.Intn(9)
	cfg.NV = 2
	cfg.KT = keyTypes[rng.Intn(len(keyTypes))]
	cfg.VT = valTypes[rng.Intn(len(valTypes))]
	cfg.NF = []string{"bin", "v1"}[rng.Intn(2)]
	cfg.Cache = []string{"none", "large"}[rng.Intn(2)]
	var tall []int
	if rng.Intn(8) == 0 {
		// a tall tree: branch factor 2, 34-48 keys with layers up to 6, so that cursor paths get 5 and more entries deep
		cfg.Bf, cfg.KT, cfg.NK = 2, "userkey", 34+rng.Intn(15)
		for i := 0; i < cfg.NK; i++ {
			l := 0
			for l < 6 && rng.Intn(2) == 0 {
				l++
			}
			tall = append(tall, l)
		}
	}
	r := &diffRun{cfg: cfg, rng: rng}
	r.kc = newKeyCodec(cfg.KT, cfg.NK, cfg.Bf, rng, tall, 3)
	r.cfg.Layers = r.kc.layers
	r.vc = newValCodec(cfg.VT)
	r.st = newRecStore(fmt.Sprintf("cur-%d", id))
	r.proj = &projector{nf: cfg.NF, kc: r.kc, vc: r.vc, st: r.st}
	ev := &curEvent{Op: "cur", ID: id, Cfg: &r.cfg, Term: []term{}, Walks: []curWalk{}, Seeks: []curSeek{}}

	s := r.fresh()
	ev.Mode = []string{"memory", "memory", "persisted", "persisted", "dirty", "fresh", "emptied", "emptied-persisted"}[rng.Intn(8)]
	if tall != nil {
		for k := 1; k <= cfg.NK; k++ {
			if rng.Intn(12) != 0 {
				v := 1 + rng.Intn(2)
				if err := s.m.Insert(ctx, r.kc.Key(k), r.vc.Val(v)); err != nil {
					panic(err)
				}
				s.model[k] = v
			}
		}
	}
	switch ev.Mode {
	case "memory":
		r.mutate(s, 1+rng.Intn(3*cfg.NK), 3)
	case "persisted":
		r.mutate(s, 1+rng.Intn(3*cfg.NK), 3)
		r.persist(s)
	case "dirty":
		r.mutate(s, 1+rng.Intn(2*cfg.NK), 2)
		r.persist(s)
		r.mutate(s, 1+rng.Intn(3), 3)
	case "fresh":
	case "emptied":
		r.mutate(s, 1+rng.Intn(4), 0)
		r.empty(s)
	case "emptied-persisted":
		r.mutate(s, 1+rng.Intn(4), 0)
		r.empty(s)
		r.persist(s)
	}
	ev.Ents = pairsOf(s.model)
	ev.Height = int(s.m.Height())
	if s.root != nil && (ev.Mode == "persisted" || ev.Mode == "emptied-persisted") {
		ev.Terms = true
		ev.Term = r.proj.kid(linkOf(s.root))
		ev.Placeholder = true // a tree loaded from a root without link holds the placeholder node
	}
	if ev.Mode == "fresh" {
		ev.Placeholder = true
	}

	getOf := func(c *mast.Cursor) []int {
		k, v, ok := c.Get()
		if !ok {
			return []int{0, 0}
		}
		return []int{r.kc.Rank(k), r.vc.Rank(v)}
	}
	n := len(s.model)
	// ---- walks
	starts := []curWalk{{Start: "min"}, {Start: "max"}}
	for i := 0; i < 4; i++ {
		starts = append(starts, curWalk{Start: "ceil", P: 1 + rng.Intn(cfg.NK)})
	}
	for _, w := range starts {
		w.Gets = [][]int{}
		w.Moves = []string{}
		nm := rng.Intn(2*n + 4)
		// shadow position (1..n, 0 = off) only to keep most walks inside the tree; the oracle is in the specification
		pos := 0
		switch w.Start {
		case "min":
			pos = 1
		case "max":
			pos = n
		default:
			for i, e := range ev.Ents {
				if e[0] >= w.P {
					pos = i + 1
					break
				}
			}
		}
		if pos > n {
			pos = 0
		}
		for i := 0; i < nm; i++ {
			f := rng.Intn(2) == 0
			if pos == 1 && !f && rng.Intn(6) != 0 {
				f = true
			}
			if pos == n && f && rng.Intn(6) != 0 {
				f = false
			}
			if f {
				w.Moves = append(w.Moves, "F")
				if pos != 0 {
					pos++
				}
			} else {
				w.Moves = append(w.Moves, "B")
				if pos != 0 {
					pos--
				}
			}
			if pos > n {
				pos = 0
			}
		}
		w.Res, w.Msg = guard(func() error {
			c, err := s.m.Cursor(ctx)
			if err != nil {
				return err
			}
			switch w.Start {
			case "min":
				err = c.Min(ctx)
			case "max":
				err = c.Max(ctx)
			default:
				err = c.Ceil(ctx, r.kc.Key(w.P))
			}
			if err != nil {
				return err
			}
			w.Gets = append(w.Gets, getOf(c))
			for _, mv := range w.Moves {
				if mv == "F" {
					err = c.Forward(ctx)
				} else {
					err = c.Backward(ctx)
				}
				if err != nil {
					return err
				}
				w.Gets = append(w.Gets, getOf(c))
			}
			return nil
		})
		ev.NMoves += len(w.Moves)
		for _, g := range w.Gets {
			if g[0] == 0 {
				ev.NOff++
			}
		}
		ev.Walks = append(ev.Walks, w)
	}
	// ---- seeks: every probe of the universe
	for p := 1; p <= cfg.NK; p++ {
		sk := curSeek{P: p, Ents: [][]int{}, SEnts: [][]int{}}
		sk.Res, sk.Msg = guard(func() error {
			return s.m.SeekIter(ctx, r.kc.Key(p), func(k, v interface{}) error {
				sk.Ents = append(sk.Ents, []int{r.kc.Rank(k), r.vc.Rank(v)})
				return nil
			})
		})
		if sk.Res == "ok" && len(sk.Ents) > 0 {
			sk.Stop = 1 + rng.Intn(len(sk.Ents))
			var msg string
			sk.SRes, msg = guard(func() error {
				return s.m.SeekIter(ctx, r.kc.Key(p), func(k, v interface{}) error {
					sk.SEnts = append(sk.SEnts, []int{r.kc.Rank(k), r.vc.Rank(v)})
					if len(sk.SEnts) == sk.Stop {
						return mast.ErrIterDone
					}
					return nil
				})
			})
			if msg != "" {
				sk.Msg += " | stop: " + msg
			}
		}
		ev.Seeks = append(ev.Seeks, sk)
	}
	out.Encode(ev)
}
