package main

import (
	"bufio"
	"encoding/json"
	"flag"
	"fmt"
	"math/rand"
	"os"
)

func openOut(path string) (*json.Encoder, func()) {
	f, err := os.Create(path)
	if err != nil {
		fmt.Fprintln(os.Stderr, err)
		os.Exit(2)
	}
	w := bufio.NewWriterSize(f, 1<<20)
	enc := json.NewEncoder(w)
	return enc, func() { w.Flush(); f.Close() }
}

func main() {
	if len(os.Args) < 2 {
		fmt.Fprintln(os.Stderr, "usage: mastdrv <family> [flags]")
		os.Exit(2)
	}
	// self-test of the independent digest
	if nodeName([]byte("abc")) != "vd2BPGNCOXIxce8_7phXm5SWTjuxyz5CcmLIwGjVIxk" {
		fmt.Fprintln(os.Stderr, "blake2b self-test failed: "+nodeName([]byte("abc")))
		os.Exit(2)
	}
	fam := os.Args[1]
	fs := flag.NewFlagSet(fam, flag.ExitOnError)
	seed := fs.Int64("seed", 1, "seed")
	n := fs.Int("n", 100, "number of traces / cases")
	steps := fs.Int("steps", 40, "steps per trace")
	out := fs.String("out", "trace.ndjson", "output ndjson")
	in := fs.String("in", "", "input (behaviours to replay)")
	kt := fs.String("kt", "", "fix key type")
	vt := fs.String("vt", "", "fix value type")
	nf := fs.String("nf", "", "fix node format")
	cache := fs.String("cache", "", "fix cache mode")
	bf := fs.Uint("bf", 0, "fix branch factor")
	nk := fs.Int("nk", 0, "fix key universe")
	profile := fs.String("profile", "general", "operation mix")
	part := fs.Int("part", 0, "flush: this process runs the cases with id % parts == part")
	parts := fs.Int("parts", 1, "flush: number of driver processes the cases are split over")
	budget := fs.Int("budget", 600, "executions spent on exhaustive schedule enumeration")
	scen := fs.Int("scen", 6, "number of small scenarios whose schedules are enumerated")
	scratch := fs.String("scratch", os.TempDir(), "scratch directory")
	dir := fs.String("dir", "", "filechild: directory")
	name := fs.String("name", "", "filechild: node name")
	size := fs.Int("size", 0, "filechild: payload size")
	pseed := fs.Int64("pseed", 0, "filechild: payload seed")
	limit := fs.Int("limit", 0, "filechild: RLIMIT_FSIZE")
	mode := fs.String("mode", "crash", "filechild: crash | ioerr")
	stores := fs.String("stores", "", "map family: also write every Persist.Store call to this file")
	big := fs.Int("big", 0, "every big-th case uses a large tree (0 = never)")
	fs.Parse(os.Args[2:])
	_ = in
	switch fam {
	case "map":
		enc, done := openOut(*out)
		defer done()
		if *stores != "" {
			senc, sdone := openOut(*stores)
			defer sdone()
			storesOut = senc
		}
		for i := 0; i < *n; i++ {
			var fixed *mapCfg
			if *kt != "" {
				fixed = &mapCfg{Bf: *bf, NK: *nk, NV: 2, KT: *kt, VT: *vt, NF: *nf, Cache: *cache, Src: "random"}
			}
			randomMapTrace(i+1, *seed*1000003+int64(i), *steps, enc, fixed, *profile)
		}
	case "diff":
		enc, done := openOut(*out)
		defer done()
		for i := 0; i < *n; i++ {
			diffCase(i+1, *seed*1000003+int64(i), enc, *big > 0 && i%*big == 0)
		}
	case "cursor":
		enc, done := openOut(*out)
		defer done()
		for i := 0; i < *n; i++ {
			cursorCase(i+1, *seed*1000003+int64(i), enc)
		}
	case "flush":
		enc, done := openOut(*out)
		defer done()
		flushFamily(*seed, *n, enc, *budget, *scen, *part, *parts)
	case "faults":
		enc, done := openOut(*out)
		defer done()
		faultsFamily(*seed, *n, enc, *budget)
	case "format":
		enc, done := openOut(*out)
		defer done()
		formatFamily(*seed, *n, enc)
	case "load":
		enc, done := openOut(*out)
		defer done()
		for i := 0; i < *n; i++ {
			loadCase(i+1, *seed*1000003+int64(i), enc)
			if i%4 == 0 {
				loadEmptyCase(i+1, *seed*1000003+int64(i), enc)
			}
		}
	case "race":
		raceScratch = *scratch
		enc, done := openOut(*out)
		defer done()
		senc, sdone := openOut(*out + ".steered")
		defer sdone()
		f, err := os.Open(*in)
		if err != nil {
			fmt.Fprintln(os.Stderr, err)
			os.Exit(2)
		}
		sc := bufio.NewScanner(f)
		sc.Buffer(make([]byte, 1<<20), 1<<26)
		i := 0
		for sc.Scan() && i < *n {
			var b behT
			if err := json.Unmarshal(sc.Bytes(), &b); err != nil {
				fmt.Fprintln(os.Stderr, "bad behaviour:", err)
				os.Exit(2)
			}
			i++
			raceCase(i, *seed*1000003+int64(i), b, []string{"frozen", "live", "frozen", "livefile"}[i%4], enc)
		}
		hrng := rand.New(rand.NewSource(*seed))
		for j := 0; j < *big; j++ {
			i++
			raceCase(i, *seed*1000003+int64(i), heavyBeh(hrng, 30+hrng.Intn(40), 240), []string{"frozen", "live", "frozen", "livefile"}[i%4], enc)
		}
		for j := 0; j < *n/4+1; j++ {
			steeredCase(j+1, *seed*7+int64(j), senc)
			steeredLoadCase(j+1, *seed*11+int64(j), senc)
			steeredFailedFlushCase(j+1, *seed*13+int64(j), senc)
			steeredSameChangeCase(j+1, *seed*17+int64(j), senc)
		}
	case "replay-map":
		enc, done := openOut(*out)
		defer done()
		f, err := os.Open(*in)
		if err != nil {
			fmt.Fprintln(os.Stderr, err)
			os.Exit(2)
		}
		sc := bufio.NewScanner(f)
		sc.Buffer(make([]byte, 1<<20), 1<<26)
		i := 0
		for sc.Scan() && i < *n {
			var b behT
			if err := json.Unmarshal(sc.Bytes(), &b); err != nil {
				fmt.Fprintln(os.Stderr, "bad behaviour:", err)
				os.Exit(2)
			}
			i++
			replayMapTrace(i, *seed*1000003+int64(i), b, enc)
		}
	case "trans-map":
		enc, done := openOut(*out)
		defer done()
		if *stores != "" {
			senc, sdone := openOut(*stores)
			defer sdone()
			storesOut = senc
		}
		f, err := os.Open(*in)
		if err != nil {
			fmt.Fprintln(os.Stderr, err)
			os.Exit(2)
		}
		sc := bufio.NewScanner(f)
		sc.Buffer(make([]byte, 1<<20), 1<<26)
		i := 0
		for sc.Scan() {
			var t transT
			if err := json.Unmarshal(sc.Bytes(), &t); err != nil {
				fmt.Fprintln(os.Stderr, "bad transition:", err)
				os.Exit(2)
			}
			i++
			if *profile == "follow" {
				transFollowTrace(3000000+i, *seed*1000003+int64(i), t, enc)
			} else {
				transMapTrace(2000000+i, *seed*1000003+int64(i), t, enc)
			}
		}
		if *profile == "follow" {
			for _, t := range directedShapes(rand.New(rand.NewSource(*seed)), *n) {
				i++
				transFollowTrace(3000000+i, *seed*1000003+int64(i), t, enc)
			}
		}
	case "path":
		enc, done := openOut(*out)
		defer done()
		for i := 0; i < *n; i++ {
			pathCase(i+1, *seed*1000003+int64(i), enc)
		}
	case "store":
		enc, done := openOut(*out)
		defer done()
		for i := 0; i < *n; i++ {
			storeContractRun(i+1, *seed*1000003+int64(i), *scratch, enc)
		}
	case "filecrash":
		enc, done := openOut(*out)
		defer done()
		self, err := os.Executable()
		if err != nil {
			fmt.Fprintln(os.Stderr, err)
			os.Exit(2)
		}
		fileCrashRuns(*seed, *n, *scratch, self, enc)
		fileTreeRuns(*seed, *n*3, *scratch, self, enc)
		fileEnospcRuns(*seed, *n*2, *scratch, enc)
	case "filechild":
		fileChild(*dir, *name, *size, *pseed, *limit, *mode)
	default:
		fmt.Fprintln(os.Stderr, "unknown family "+fam)
		os.Exit(2)
	}
}
