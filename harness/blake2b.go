package main

// Independent BLAKE2b-256 (RFC 7693), unkeyed. Written for the harness so
// that "name = base64url(BLAKE2b-256(bytes))" (C08, C14) is judged by code
// that shares nothing with the library under test.

import (
	"encoding/base64"
	"encoding/binary"
	"math/bits"
)

var blakeIV = [8]uint64{
	0x6a09e667f3bcc908, 0xbb67ae8584caa73b, 0x3c6ef372fe94f82b, 0xa54ff53a5f1d36f1,
	0x510e527fade682d1, 0x9b05688c2b3e6c1f, 0x1f83d9abfb41bd6b, 0x5be0cd19137e2179,
}

var blakeSigma = [10][16]byte{
	{0, 1, 2, 3, 4, 5, 6, 7, 8, 9, 10, 11, 12, 13, 14, 15},
	{14, 10, 4, 8, 9, 15, 13, 6, 1, 12, 0, 2, 11, 7, 5, 3},
	{11, 8, 12, 0, 5, 2, 15, 13, 10, 14, 3, 6, 7, 1, 9, 4},
	{7, 9, 3, 1, 13, 12, 11, 14, 2, 6, 5, 10, 4, 0, 15, 8},
	{9, 0, 5, 7, 2, 4, 10, 15, 14, 1, 11, 12, 6, 8, 3, 13},
	{2, 12, 6, 10, 0, 11, 8, 3, 4, 13, 7, 5, 15, 14, 1, 9},
	{12, 5, 1, 15, 14, 13, 4, 10, 0, 7, 6, 3, 9, 2, 8, 11},
	{13, 11, 7, 14, 12, 1, 3, 9, 5, 0, 15, 4, 8, 6, 2, 10},
	{6, 15, 14, 9, 11, 3, 0, 8, 12, 2, 13, 7, 1, 4, 10, 5},
	{10, 2, 8, 4, 7, 6, 1, 5, 15, 11, 9, 14, 3, 12, 13, 0},
}

func blakeCompress(h *[8]uint64, block []byte, t uint64, final bool) {
	var m [16]uint64
	for i := 0; i < 16; i++ {
		m[i] = binary.LittleEndian.Uint64(block[i*8:])
	}
	var v [16]uint64
	copy(v[:8], h[:])
	copy(v[8:], blakeIV[:])
	v[12] ^= t
	if final {
		v[14] = ^v[14]
	}
	g := func(a, b, c, d int, x, y uint64) {
		v[a] = v[a] + v[b] + x
		v[d] = bits.RotateLeft64(v[d]^v[a], -32)
		v[c] = v[c] + v[d]
		v[b] = bits.RotateLeft64(v[b]^v[c], -24)
		v[a] = v[a] + v[b] + y
		v[d] = bits.RotateLeft64(v[d]^v[a], -16)
		v[c] = v[c] + v[d]
		v[b] = bits.RotateLeft64(v[b]^v[c], -63)
	}
	for r := 0; r < 12; r++ {
		s := blakeSigma[r%10]
		g(0, 4, 8, 12, m[s[0]], m[s[1]])
		g(1, 5, 9, 13, m[s[2]], m[s[3]])
		g(2, 6, 10, 14, m[s[4]], m[s[5]])
		g(3, 7, 11, 15, m[s[6]], m[s[7]])
		g(0, 5, 10, 15, m[s[8]], m[s[9]])
		g(1, 6, 11, 12, m[s[10]], m[s[11]])
		g(2, 7, 8, 13, m[s[12]], m[s[13]])
		g(3, 4, 9, 14, m[s[14]], m[s[15]])
	}
	for i := 0; i < 8; i++ {
		h[i] ^= v[i] ^ v[i+8]
	}
}

func blake2b256(data []byte) [32]byte {
	h := blakeIV
	h[0] ^= 0x01010000 ^ 32
	var t uint64
	off := 0
	for len(data)-off > 128 {
		t += 128
		blakeCompress(&h, data[off:off+128], t, false)
		off += 128
	}
	var last [128]byte
	copy(last[:], data[off:])
	t += uint64(len(data) - off)
	blakeCompress(&h, last[:], t, true)
	var out [32]byte
	for i := 0; i < 4; i++ {
		binary.LittleEndian.PutUint64(out[i*8:], h[i])
	}
	return out
}

// nodeName is the published naming rule: unpadded URL-safe base64 of the digest.
func nodeName(data []byte) string {
	d := blake2b256(data)
	return base64.RawURLEncoding.EncodeToString(d[:])
}
