module mastverif

go 1.22.0

require github.com/jrhy/mast v0.0.0

replace github.com/jrhy/mast => /repo
