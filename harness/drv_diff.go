package main

// Driver of the "diff" family (C06 C07 C15): builds ordered pairs of trees by
// real histories (lineage, siblings, unrelated, emptied, never populated, nil
// old tree; persisted, in memory or mixed), runs every diff interface on them
// and logs what the callbacks saw, the node names reported, the Load calls
// issued, and the result of synchronising a replica from the reported nodes.

import (
	"encoding/json"
	"errors"
	"fmt"
	"math/rand"
	"sort"

	"github.com/jrhy/mast"
)

type diffStop struct {
	At  int     `json:"at"`  // the callback invocation (1-based) that said stop / failed
	Seq [][]int `json:"seq"` // what the callbacks had been given, including that one
	Res string  `json:"res"`
}

type diffEvent struct {
	Op     string  `json:"op"`
	ID     int     `json:"id"`
	Cfg    *mapCfg `json:"cfg,omitempty"`
	Mode   string  `json:"mode"`
	Resid  string  `json:"resid"`
	HasOld bool    `json:"hasold"`
	MO     [][]int `json:"mo"`
	MN     [][]int `json:"mn"`
	// entry interfaces; each entry is [kind, key, oldv, newv] with kind 1=add 2=rem 3=chg
	Cb      [][]int    `json:"cb"`
	CbRes   string     `json:"cbres"`
	Cur     [][]int    `json:"cur"`
	CurRes  string     `json:"curres"`
	CurTail bool       `json:"curtail"`
	Stops   []diffStop `json:"stops"`
	Fails   []diffStop `json:"fails"`
	// node interface (persisted pairs)
	Terms    bool   `json:"terms"`
	Old      []term `json:"old"`
	New      []term `json:"new"`
	Added    []term `json:"added"`
	Removed  []term `json:"removed"`
	AddedN   int    `json:"addedn"` // callbacks, to detect repeats that map to the same term
	RemovedN int    `json:"removedn"`
	HO       int    `json:"ho"` // heights recorded in the two roots (persisted pairs)
	HN       int    `json:"hn"`
	LRes     string `json:"lres"`
	// a full entry diff / node diff run right after diffs that their callbacks stopped at the first report: "ok" (same result as the
	// first full run), "bad", or "" (not run)
	AgainCb    string `json:"againcb"`
	AgainLinks string `json:"againlinks"`
	// node diffs repeated with one Load failing once: how many were run, how many returned an error, how many reported success
	// with a result other than that of the undisturbed run
	FaultRuns int    `json:"faultruns"`
	FaultErrs int    `json:"faulterrs"`
	FaultBad  int    `json:"faultbad"`
	Sync      string `json:"sync"`
	ELoads    int    `json:"eloads"` // distinct names loaded by DiffIter
	// of those (and of the node diff's): nodes that BOTH versions contain, but at different places (another level, or other
	// bounding keys): a subtree that is common to both versions without sitting at the same place in them
	EShift  int    `json:"eshift"`
	LShift  int    `json:"lshift"`
	CLoads  int    `json:"cloads"` // the same for StartDiff / NextEntry
	CShift  int    `json:"cshift"`
	LLoads  int    `json:"lloads"` // distinct names loaded by DiffLinks
	Counted bool   `json:"counted"`
	Stores  string `json:"stores"` // "one" | "two": the new version is opened on a mirror store holding the same nodes under another prefix
	DCache  bool   `json:"dcache"` // a fresh NodeCache is attached to both trees while they are diffed
	// large pairs: counts only
	Big    bool   `json:"big"`
	ReachO int    `json:"reacho"`
	ReachN int    `json:"reachn"`
	D      int    `json:"d"`
	Same   bool   `json:"same"`
	Msg    string `json:"msg"`
}

func pairsOf(m map[int]int) [][]int {
	ks := []int{}
	for k := range m {
		ks = append(ks, k)
	}
	sort.Ints(ks)
	out := [][]int{}
	for _, k := range ks {
		out = append(out, []int{k, m[k]})
	}
	return out
}

type diffSide struct {
	m     *mast.Mast
	model map[int]int
	root  *mast.Root // non-nil when fully persisted
}

type diffRun struct {
	wcache mast.NodeCache // the writer's node cache (mode "wp": the new side stays the writer's own handle)
	cfg    mapCfg
	kc     *keyCodec
	vc     *valCodec
	st     *recStore
	proj   *projector
	rng    *rand.Rand
}

func (r *diffRun) rcfg() *mast.RemoteConfig {
	c := &mast.RemoteConfig{KeysLike: r.kc.zero, ValuesLike: r.vc.zero, StoreImmutablePartsWith: r.st, NodeCache: r.wcache}
	if r.cfg.Marsh == "jsonreg" {
		c.UnmarshalerUsesRegisteredTypes = true
	}
	if r.cfg.Cmp {
		// a caller-supplied order with the same sign as the default one, but magnitudes other than 1 (like "a - b")
		def := mast.DefaultKeyCompare(json.Marshal)
		c.KeyCompare = func(a, b interface{}) (int, error) { x, err := def(a, b); return 7 * x, err }
		if r.cfg.Rev {
			c.KeyCompare = func(a, b interface{}) (int, error) { x, err := def(a, b); return -3 * x, err } // descending
		}
	}
	return c
}

func (r *diffRun) fresh() *diffSide {
	o := nfOf(r.cfg.NF)
	o.BranchFactor = r.cfg.Bf
	m, err := mast.NewRoot(&o).LoadMast(ctx, r.rcfg())
	if err != nil {
		panic(err)
	}
	return &diffSide{m: m, model: map[int]int{}}
}

func (r *diffRun) mutate(s *diffSide, n int, delBias int) {
	for i := 0; i < n; i++ {
		k := 1 + r.rng.Intn(r.cfg.NK)
		if r.cfg.NK > 100 && r.rng.Intn(2) == 0 {
			// large trees: prefer keys that live in interior nodes (changing them shifts the children to their right)
			for try := 0; try < 200 && r.kc.layers[k-1] == 0; try++ {
				k = 1 + r.rng.Intn(r.cfg.NK)
			}
		}
		if v, ok := s.model[k]; ok && r.rng.Intn(10) < delBias {
			if err := s.m.Delete(ctx, r.kc.Key(k), r.vc.Val(v)); err != nil {
				panic(fmt.Sprintf("diff driver: delete failed: %v", err))
			}
			delete(s.model, k)
		} else {
			v := 1 + r.rng.Intn(r.cfg.NV)
			if err := s.m.Insert(ctx, r.kc.Key(k), r.vc.Val(v)); err != nil {
				panic(fmt.Sprintf("diff driver: insert failed: %v", err))
			}
			s.model[k] = v
		}
	}
}

func (r *diffRun) empty(s *diffSide) {
	for _, p := range pairsOf(s.model) {
		if err := s.m.Delete(ctx, r.kc.Key(p[0]), r.vc.Val(p[1])); err != nil {
			panic(err)
		}
	}
	s.model = map[int]int{}
}

func (r *diffRun) clone(s *diffSide) *diffSide {
	m2, err := s.m.Clone(ctx)
	if err != nil {
		panic(err)
	}
	cp := map[int]int{}
	for k, v := range s.model {
		cp[k] = v
	}
	return &diffSide{m: &m2, model: cp}
}

// persist makes the side fully persisted and reopens it from its root, so that
// every node is referenced by name.
func (r *diffRun) persist(s *diffSide) {
	root, err := s.m.MakeRoot(ctx)
	if err != nil {
		panic(err)
	}
	m, err := root.LoadMast(ctx, r.rcfg())
	if err != nil {
		panic(err)
	}
	s.m, s.root = m, root
}

func (r *diffRun) reopen(s *diffSide) *mast.Mast {
	m, err := s.root.LoadMast(ctx, r.rcfg())
	if err != nil {
		panic(err)
	}
	return m
}

func loadedNames(ev []storeEvent) map[string]bool {
	m := map[string]bool{}
	for _, e := range ev {
		if e.Kind == "load" {
			m[e.Name] = true
		}
	}
	return m
}

// places records, for every node reachable from a link, its level and the ranks of the keys that bound it (0 / 2^30 at the ends).
func (r *diffRun) places(name string, level, lo, hi int, acc map[string][3]int) {
	if name == "" {
		return
	}
	b, ok := r.st.get(name)
	if !ok {
		return
	}
	rn, err := decodeNode(r.cfg.NF, b)
	if err != nil {
		return
	}
	acc[name] = [3]int{level, lo, hi}
	for i, l := range rn.Links {
		clo, chi := lo, hi
		if i > 0 && i-1 < len(rn.Keys) {
			clo = r.proj.keyRank(rn.Keys[i-1])
		}
		if i < len(rn.Keys) {
			chi = r.proj.keyRank(rn.Keys[i])
		}
		r.places(l, level-1, clo, chi, acc)
	}
}

func kindOf(added, removed bool) int {
	if added {
		return 1
	}
	if removed {
		return 2
	}
	return 3
}

// rankPair: the value ranks of a reported difference (0 = no value on that side; a nil value of a set-like tree has a rank of its own)
func (r *diffRun) rankPair(kind int, ov, nv interface{}) (int, int) {
	o, n := 0, 0
	if kind != 1 || ov != nil {
		o = r.vc.Rank(ov)
	}
	if kind != 2 || nv != nil {
		n = r.vc.Rank(nv)
	}
	return o, n
}

var errStopTest = errors.New("callback failure requested by the harness")

// entryDiff runs DiffIter; stopAt/failAt = 0 means never.
func (r *diffRun) entryDiff(nm, om *mast.Mast, stopAt, failAt int) ([][]int, string, string) {
	seq := [][]int{}
	n := 0
	res, msg := guard(func() error {
		return nm.DiffIter(ctx, om, func(added, removed bool, key, av, rv interface{}) (bool, error) {
			n++
			o, nn := r.rankPair(kindOf(added, removed), rv, av)
			seq = append(seq, []int{kindOf(added, removed), r.kc.Rank(key), o, nn})
			if n == failAt {
				return false, errStopTest
			}
			if n == stopAt {
				return false, nil
			}
			return true, nil
		})
	})
	return seq, res, msg
}

func (r *diffRun) cursorDiff(nm, om *mast.Mast) ([][]int, string, bool, string) {
	seq := [][]int{}
	tail := false
	res, msg := guard(func() error {
		dc, err := nm.StartDiff(ctx, om)
		if err != nil {
			return err
		}
		for i := 0; i < 10000; i++ {
			d, err := dc.NextEntry(ctx)
			if err == mast.ErrNoMoreDiffs {
				// it must keep saying so
				_, e2 := dc.NextEntry(ctx)
				_, e3 := dc.NextEntry(ctx)
				tail = e2 == mast.ErrNoMoreDiffs && e3 == mast.ErrNoMoreDiffs
				return nil
			}
			if err != nil {
				return err
			}
			kind := 3
			switch d.Type {
			case mast.DiffType_Add:
				kind = 1
			case mast.DiffType_Remove:
				kind = 2
			}
			o, n := r.rankPair(kind, d.OldValue, d.NewValue)
			seq = append(seq, []int{kind, r.kc.Rank(d.Key), o, n})
		}
		return fmt.Errorf("diff cursor does not end")
	})
	return seq, res, tail, msg
}

func (r *diffRun) linkDiff(nm, om *mast.Mast) (added, removed []string, res, msg string) {
	res, msg = guard(func() error {
		return nm.DiffLinks(ctx, om, func(rem bool, link interface{}) (bool, error) {
			name, ok := link.(string)
			if !ok {
				name = fmt.Sprintf("<%T>", link)
			}
			if rem {
				removed = append(removed, name)
			} else {
				added = append(added, name)
			}
			return true, nil
		})
	})
	return
}

func linkOf(root *mast.Root) string {
	if root == nil || root.Link == nil {
		return ""
	}
	return *root.Link
}

// syncCheck copies the old version's nodes plus the reported added nodes into an
// empty store and fully iterates the new version there.
func (r *diffRun) syncCheck(oldS, newS *diffSide, added []string) string {
	s2 := newRecStore("replica")
	acc := map[string]bool{}
	if oldS != nil {
		r.proj.reach(linkOf(oldS.root), acc)
	}
	for _, a := range added {
		acc[a] = true
	}
	for n := range acc {
		if b, ok := r.st.get(n); ok {
			s2.m[n] = b
		}
	}
	cfg := r.rcfg()
	cfg.StoreImmutablePartsWith = s2
	res, msg := guard(func() error {
		m, err := newS.root.LoadMast(ctx, cfg)
		if err != nil {
			return err
		}
		n := 0
		if err := m.Iter(ctx, func(k, v interface{}) error { n++; return nil }); err != nil {
			return err
		}
		if n != len(newS.model) {
			return fmt.Errorf("replica iterates %d entries, expected %d", n, len(newS.model))
		}
		return nil
	})
	if res == "ok" {
		return "ok"
	}
	return res + ": " + msg
}

func (r *diffRun) names2terms(ns []string) []term {
	out := []term{}
	for _, n := range ns {
		out = append(out, r.proj.node(n))
	}
	return out
}

func diffCase(id int, seed int64, out *json.Encoder, big bool) {
	rng := rand.New(rand.NewSource(seed))
	cfg := mapCfg{ID: id, Src: "random"}
	cfg.Bf = []uint{2, 2, 3, 4, 16}[rng.Intn(5)]
	cfg.NK = 3 + rng.Intn(8)
	cfg.NV = 2
	cfg.KT = keyTypes[rng.Intn(len(keyTypes))]
	cfg.VT = []string{"int", "string", "struct", "intslice", "ptrstruct"}[rng.Intn(5)]
	cfg.Cmp = rng.Intn(4) == 0 && cfg.KT != "struct"
	cfg.Rev = cfg.Cmp && rng.Intn(2) == 0
	cfg.NF = []string{"bin", "v1"}[rng.Intn(2)]
	cfg.Cache = "none"
	if !big && rng.Intn(8) == 0 {
		// whole-node decoding ("registered types"), with values that may be nil (trees used as sets)
		cfg.Marsh = "jsonreg"
		cfg.NF = "v1"
		cfg.KT, cfg.VT = "string", []string{"string", "nilstr"}[rng.Intn(2)]
		cfg.Cmp = false
	}
	if big {
		cfg.NK = 300 + rng.Intn(1500)
		cfg.Bf = []uint{2, 3, 4, 16, 16}[rng.Intn(5)]
		cfg.KT = []string{"int", "uint64", "string"}[rng.Intn(3)]
		cfg.VT = "int"
	}
	r := &diffRun{cfg: cfg, rng: rng}
	crown := big && rng.Intn(5) == 0
	if crown {
		// a tall tree over user keys whose smallest key belongs to the top layer and is absent from the old version: adding it
		// puts a new first key into the top node (or a new top node above the old tree), which shifts a subtree common to both versions
		cfg.NK, cfg.Bf, cfg.KT, cfg.Cmp, cfg.Rev = 60+rng.Intn(120), 2, "userkey", false, false
		r.cfg = cfg
		top := 5 + rng.Intn(2)
		layers := []int{top}
		for i := 1; i < cfg.NK; i++ {
			l := 0
			for l < top && rng.Intn(2) == 0 {
				l++
			}
			layers = append(layers, l)
		}
		r.kc = newKeyCodec("userkey", cfg.NK, 2, rng, layers, top)
	} else if big {
		r.kc = bigKeyCodec(cfg.KT, cfg.NK, cfg.Bf)
	} else {
		r.kc = newKeyCodec(cfg.KT, cfg.NK, cfg.Bf, rng, nil, 3)
	}
	if cfg.Cmp && cfg.Rev {
		r.kc.reverse()
	}
	r.cfg.Layers = r.kc.layers
	if big {
		r.cfg.Layers = []int{}
		r.cfg.NK = len(r.kc.keys)
	}
	r.vc = newValCodec(cfg.VT)
	r.st = newRecStore(fmt.Sprintf("diff-%d", id))
	r.proj = &projector{nf: cfg.NF, kc: r.kc, vc: r.vc, st: r.st}
	writerCache := rng.Intn(5) == 0
	if writerCache {
		r.wcache = mast.NewNodeCache(8192)
	}

	ev := &diffEvent{Op: "diff", ID: id, Cfg: &r.cfg, Big: big, Stops: []diffStop{}, Fails: []diffStop{},
		Old: []term{}, New: []term{}, Added: []term{}, Removed: []term{}, Cb: [][]int{}, Cur: [][]int{}}

	// ---- build the pair
	modes := []string{"lineage", "lineage", "siblings", "unrelated", "emptied-old", "emptied-new", "fresh-old", "fresh-new", "nil-old", "same", "same-clone", "rebuilt", "rebuilt"}
	ev.Mode = modes[rng.Intn(len(modes))]
	if big {
		ev.Mode = []string{"lineage", "lineage", "siblings", "same", "same-clone", "rebuilt"}[rng.Intn(6)]
	}
	if crown {
		ev.Mode = "crown"
	}
	base := r.fresh()
	nb := rng.Intn(2*cfg.NK + 1)
	if big {
		for k := 1; k <= cfg.NK; k++ {
			if crown && k == 1 {
				continue
			}
			if rng.Intn(8) != 0 {
				v := 1 + rng.Intn(2)
				if err := base.m.Insert(ctx, r.kc.Key(k), r.vc.Val(v)); err != nil {
					panic(err)
				}
				base.model[k] = v
			}
		}
	} else {
		r.mutate(base, nb, 3)
	}
	var oldS, newS *diffSide
	few := func() int {
		if big {
			return 1 + rng.Intn(10)
		}
		return 1 + rng.Intn(4)
	}
	switch ev.Mode {
	case "lineage":
		oldS = base
		if rng.Intn(2) == 0 || big {
			r.persist(oldS)
		}
		newS = r.clone(oldS)
		r.mutate(newS, few(), 4)
	case "siblings":
		if rng.Intn(2) == 0 || big {
			r.persist(base)
		}
		oldS, newS = r.clone(base), r.clone(base)
		r.mutate(oldS, few(), 4)
		r.mutate(newS, few(), 4)
	case "unrelated":
		oldS = base
		newS = r.fresh()
		r.mutate(newS, rng.Intn(2*cfg.NK+1), 3)
	case "emptied-old":
		oldS = base
		r.mutate(oldS, 2, 0)
		if rng.Intn(2) == 0 {
			r.persist(oldS)
		}
		r.empty(oldS)
		newS = r.fresh()
		r.mutate(newS, rng.Intn(cfg.NK+1), 2)
	case "emptied-new":
		oldS = base
		newS = r.clone(base)
		r.mutate(newS, 1, 0)
		r.empty(newS)
	case "fresh-old":
		oldS = r.fresh()
		newS = base
	case "fresh-new":
		oldS = base
		newS = r.fresh()
	case "nil-old":
		oldS = nil
		newS = base
	case "rebuilt":
		// one side got to its contents through inserts and deletes, the other holds the same (or neighbouring) contents built by
		// inserts only, in ascending order: different histories of the same map
		oldS = base
		if !big {
			r.mutate(oldS, 2+rng.Intn(2*cfg.NK), 5)
		}
		if big || rng.Intn(2) == 0 {
			// ... deleting down to exactly a power of the branch factor, where the height rule has its boundary
			pows := []int{}
			for p := int(cfg.Bf); p < cfg.NK; p *= int(cfg.Bf) {
				pows = append(pows, p)
			}
			if len(pows) > 0 {
				target := pows[rng.Intn(len(pows))]
				for len(oldS.model) < target+1+rng.Intn(3) && len(oldS.model) < cfg.NK {
					k := 1 + rng.Intn(cfg.NK)
					if _, ok := oldS.model[k]; !ok {
						v := 1 + rng.Intn(2)
						if err := oldS.m.Insert(ctx, r.kc.Key(k), r.vc.Val(v)); err != nil {
							panic(err)
						}
						oldS.model[k] = v
					}
				}
				for len(oldS.model) > target {
					ps := pairsOf(oldS.model)
					p := ps[rng.Intn(len(ps))]
					if err := oldS.m.Delete(ctx, r.kc.Key(p[0]), r.vc.Val(p[1])); err != nil {
						panic(err)
					}
					delete(oldS.model, p[0])
				}
			}
		}
		newS = r.fresh()
		for _, p := range pairsOf(oldS.model) {
			if err := newS.m.Insert(ctx, r.kc.Key(p[0]), r.vc.Val(p[1])); err != nil {
				panic(err)
			}
			newS.model[p[0]] = p[1]
		}
		if rng.Intn(2) == 0 {
			r.mutate(newS, 1, 0)
		}
		if rng.Intn(2) == 0 {
			oldS, newS = newS, oldS
		}
	case "crown":
		oldS = base
		r.persist(oldS)
		newS = r.clone(oldS)
		if err := newS.m.Insert(ctx, r.kc.Key(1), r.vc.Val(1)); err != nil {
			panic(err)
		}
		newS.model[1] = 1
		if rng.Intn(2) == 0 {
			oldS, newS = newS, oldS
		}
	case "same-clone":
		// the same version twice: a handle opened from the root, and a clone of it that was "persisted" without having been modified;
		// the two handles are diffed as they are (not reopened)
		oldS = base
		r.persist(oldS)
		cl, err := oldS.m.Clone(ctx)
		if err != nil {
			panic(err)
		}
		if rng.Intn(2) == 0 {
			// ... a clone of a clone
			if c2, err := cl.Clone(ctx); err == nil {
				cl = c2
			}
		}
		croot, err := cl.MakeRoot(ctx)
		if err != nil {
			panic(err)
		}
		newS = &diffSide{m: &cl, model: oldS.model, root: croot}
	case "same":
		oldS = base
		r.persist(oldS)
		newS = &diffSide{m: r.reopen(oldS), model: oldS.model, root: oldS.root}
	}
	// ---- residency
	ev.Resid = []string{"pp", "pp", "mm", "pm", "mp"}[rng.Intn(5)]
	if big {
		ev.Resid = "pp"
	}
	if ev.Mode == "same-clone" {
		ev.Resid = "pp"
	} else {
		if oldS != nil && (ev.Resid[0] == 'p') {
			r.persist(oldS)
		}
		if ev.Resid[1] == 'p' {
			r.persist(newS)
		}
	}
	ev.HasOld = oldS != nil
	ev.MN = pairsOf(newS.model)
	ev.MO = [][]int{}
	var om *mast.Mast
	if oldS != nil {
		ev.MO = pairsOf(oldS.model)
		om = oldS.m
	}
	bothPersisted := (oldS == nil || oldS.root != nil) && newS.root != nil && ev.Resid == "pp"

	ev.Stores = "one"
	var mirror, oldOnly *recStore
	if bothPersisted && writerCache {
		// the writer works through a node cache: the new version is diffed through the writer's own handle (what it reads comes from
		// its cache), the old version through a handle opened without any cache
		ev.Stores = "writer"
	}
	if bothPersisted && !writerCache && ev.Mode != "same-clone" {
		if rng.Intn(3) == 0 {
			// two independent stores: the old version is read from a store that holds only the old version's nodes, the new
			// version from one that holds only the new version's nodes (a replica diffing a publisher's version)
			ev.Stores = "two"
			mirror = newRecStore(r.st.prefix + "-new")
			oldOnly = newRecStore(r.st.prefix + "-old")
			acc := map[string]bool{}
			r.proj.reach(linkOf(newS.root), acc)
			for n := range acc {
				mirror.m[n], _ = r.st.get(n)
			}
			acc = map[string]bool{}
			if oldS != nil {
				r.proj.reach(linkOf(oldS.root), acc)
			}
			for n := range acc {
				oldOnly.m[n], _ = r.st.get(n)
			}
		}
		ev.DCache = rng.Intn(4) == 0
	}
	reopenBoth := func() (*mast.Mast, *mast.Mast) {
		if !bothPersisted || ev.Mode == "same-clone" {
			return newS.m, om
		}
		var cache mast.NodeCache
		if ev.DCache {
			cache = mast.NewNodeCache(4096)
		}
		if writerCache {
			var o2 *mast.Mast
			if oldS != nil {
				c := r.rcfg()
				c.NodeCache = nil
				m, err := oldS.root.LoadMast(ctx, c)
				if err != nil {
					panic(err)
				}
				o2 = m
			}
			return newS.m, o2
		}
		open := func(s *diffSide, st *recStore) *mast.Mast {
			c := r.rcfg()
			c.StoreImmutablePartsWith = st
			c.NodeCache = cache
			m, err := s.root.LoadMast(ctx, c)
			if err != nil {
				panic(err)
			}
			return m
		}
		var o2 *mast.Mast
		if oldS != nil {
			ost := r.st
			if oldOnly != nil {
				ost = oldOnly
			}
			o2 = open(oldS, ost)
		}
		nst := r.st
		if mirror != nil {
			nst = mirror
		}
		return open(newS, nst), o2
	}
	beginAll := func() {
		r.st.begin()
		if mirror != nil {
			mirror.begin()
			oldOnly.begin()
		}
	}
	endAll := func() []storeEvent {
		sev := r.st.end()
		if mirror != nil {
			sev = append(sev, mirror.end()...)
			sev = append(sev, oldOnly.end()...)
		}
		return sev
	}

	// ---- entry diff through the callback interface (with load accounting when persisted)
	nm, o2 := reopenBoth()
	beginAll()
	var msg string
	ev.Cb, ev.CbRes, msg = r.entryDiff(nm, o2, 0, 0)
	sev := endAll()
	_, ev.ELoads = distinctLoads(sev)
	eNames := loadedNames(sev)
	ev.Counted = bothPersisted
	ev.Msg = msg
	// cursor interface (with load accounting too)
	nm, o2 = reopenBoth()
	beginAll()
	ev.Cur, ev.CurRes, ev.CurTail, msg = r.cursorDiff(nm, o2)
	csev := endAll()
	_, ev.CLoads = distinctLoads(csev)
	cNames := loadedNames(csev)
	if msg != "" {
		ev.Msg += " | cursor: " + msg
	}
	if big && ev.CurRes == "ok" && fmt.Sprint(ev.Cur) != fmt.Sprint(ev.Cb) {
		ev.CurRes = "inexact" // (large pairs: compared here; the sequences themselves are not logged)
	}
	if !big {
		// early stop and callback failure at a few positions
		n := len(ev.Cb)
		for _, at := range []int{1, n, 1 + rng.Intn(n+1)} {
			if at < 1 || at > n {
				continue
			}
			nm, o2 = reopenBoth()
			seq, res, _ := r.entryDiff(nm, o2, at, 0)
			ev.Stops = append(ev.Stops, diffStop{At: at, Seq: seq, Res: res})
			nm, o2 = reopenBoth()
			seq, res, _ = r.entryDiff(nm, o2, 0, at)
			ev.Fails = append(ev.Fails, diffStop{At: at, Seq: seq, Res: res})
		}
	}
	// ---- node diff (persisted pairs)
	if bothPersisted {
		nm, o2 = reopenBoth()
		beginAll()
		added, removed, lres, lmsg := r.linkDiff(nm, o2)
		sev = endAll()
		var ltotal int
		ltotal, ev.LLoads = distinctLoads(sev)
		lNames := loadedNames(sev)
		ev.LRes = lres
		if lmsg != "" {
			ev.Msg += " | links: " + lmsg
		}
		ev.AddedN, ev.RemovedN = len(added), len(removed)
		ev.Sync = r.syncCheck(oldS, newS, added)
		ro, rn := map[string]bool{}, map[string]bool{}
		if oldS != nil {
			r.proj.reach(linkOf(oldS.root), ro)
		}
		r.proj.reach(linkOf(newS.root), rn)
		ev.ReachO, ev.ReachN = len(ro), len(rn)
		// places of the nodes in either version: level and bounding keys
		posO, posN := map[string][3]int{}, map[string][3]int{}
		if oldS != nil {
			r.places(linkOf(oldS.root), int(oldS.root.Height), 0, 1<<30, posO)
		}
		r.places(linkOf(newS.root), int(newS.root.Height), 0, 1<<30, posN)
		shifted := func(names map[string]bool) int {
			n := 0
			for name := range names {
				po, okO := posO[name]
				pn, okN := posN[name]
				if okO && okN && po != pn {
					n++
				}
			}
			return n
		}
		ev.EShift, ev.LShift, ev.CShift = shifted(eNames), shifted(lNames), shifted(cNames)
		if oldS != nil {
			ev.HO = int(oldS.root.Height)
		}
		ev.HN = int(newS.root.Height)
		for n := range ro {
			if !rn[n] {
				ev.D++
			}
		}
		for n := range rn {
			if !ro[n] {
				ev.D++
			}
		}
		ev.Same = oldS != nil && linkOf(oldS.root) == linkOf(newS.root)
		if !big {
			ev.Terms = true
			if oldS != nil {
				ev.Old = r.proj.kid(linkOf(oldS.root))
			}
			ev.New = r.proj.kid(linkOf(newS.root))
			ev.Added = r.names2terms(added)
			ev.Removed = r.names2terms(removed)
		} else {
			// counts only: completeness / within / no repeats are decided here on names
			as, rs := map[string]bool{}, map[string]bool{}
			okc := true
			for _, a := range added {
				if as[a] || !rn[a] {
					okc = false
				}
				as[a] = true
			}
			for _, a := range removed {
				if rs[a] || !ro[a] {
					okc = false
				}
				rs[a] = true
			}
			for n := range rn {
				if !ro[n] && !as[n] {
					okc = false
				}
			}
			for n := range ro {
				if !rn[n] && !rs[n] {
					okc = false
				}
			}
			if !okc && ev.LRes == "ok" {
				ev.LRes = "inexact"
			}
		}
		// ---- again, after diffs stopped by their callbacks at the first report; and with one Load failing once. These
		// runs are judged on names by C07's own clauses (complete, within its version, nothing twice), not by comparison with the first run
		judge := func(added, removed []string) bool {
			as, rs := map[string]bool{}, map[string]bool{}
			for _, a := range added {
				if as[a] || !rn[a] {
					return false
				}
				as[a] = true
			}
			for _, a := range removed {
				if rs[a] || !ro[a] {
					return false
				}
				rs[a] = true
			}
			for n := range rn {
				if !ro[n] && !as[n] {
					return false
				}
			}
			for n := range ro {
				if !rn[n] && !rs[n] {
					return false
				}
			}
			return true
		}
		if lres == "ok" && ev.CbRes == "ok" {
			nm, o2 = reopenBoth()
			stopLinks := func() {
				guard(func() error {
					return nm.DiffLinks(ctx, o2, func(bool, interface{}) (bool, error) { return false, nil })
				})
			}
			// each full run directly follows a stopped one (of either kind)
			if rng.Intn(2) == 0 {
				r.entryDiff(nm, o2, 1, 0)
			} else {
				stopLinks()
			}
			cb2, res2, _ := r.entryDiff(nm, o2, 0, 0)
			if rng.Intn(2) == 0 {
				r.entryDiff(nm, o2, 1, 0)
			} else {
				stopLinks()
			}
			a2, r2, lres2, _ := r.linkDiff(nm, o2)
			ev.AgainCb, ev.AgainLinks = "ok", "ok"
			if res2 != "ok" || fmt.Sprint(cb2) != fmt.Sprint(ev.Cb) {
				ev.AgainCb = "bad"
			}
			if lres2 != "ok" || !judge(a2, r2) {
				ev.AgainLinks = "bad"
			}
		}
		// ---- the node diff with one Load failing once (an error is fine; a success must still be a correct node diff)
		if lres == "ok" && ev.Stores == "one" && !writerCache && ltotal > 0 {
			// every position of the failing Load when the node diff makes few of them, a sample otherwise
			var at []int
			if ltotal <= 30 {
				for j := 1; j <= ltotal; j++ {
					at = append(at, j)
				}
			} else {
				for j := 0; j < 8; j++ {
					at = append(at, 1+rng.Intn(ltotal))
				}
			}
			for _, pos := range at {
				nm, o2 = reopenBoth()
				r.st.begin()
				r.st.failLoadAt = pos
				a3, r3, lres3, _ := r.linkDiff(nm, o2)
				r.st.end()
				ev.FaultRuns++
				switch {
				case lres3 == "err":
					ev.FaultErrs++
				case lres3 != "ok" || !judge(a3, r3):
					ev.FaultBad++
				}
			}
		}
	}
	if big {
		// keep the event small: entries are compared here against the models, TLC gets the verdict bit
		want := [][]int{}
		for k := 1; k <= cfg.NK; k++ {
			ov, inO := 0, false
			if oldS != nil {
				ov, inO = oldS.model[k]
			}
			nv, inN := newS.model[k]
			switch {
			case inO && !inN:
				want = append(want, []int{2, k, ov, 0})
			case !inO && inN:
				want = append(want, []int{1, k, 0, nv})
			case inO && inN && ov != nv:
				want = append(want, []int{3, k, ov, nv})
			}
		}
		if fmt.Sprint(want) != fmt.Sprint(ev.Cb) && ev.CbRes == "ok" {
			ev.CbRes = "inexact"
		}
		ev.MO, ev.MN, ev.Cb, ev.Cur = [][]int{}, [][]int{}, [][]int{}, [][]int{}
	}
	out.Encode(ev)
}

// bigKeyCodec: nk ascending keys without layer shaping (large-tree cases).
func bigKeyCodec(kt string, nk int, bf uint) *keyCodec {
	c := &keyCodec{name: kt, bf: bf}
	for i := 1; i <= nk; i++ {
		switch kt {
		case "int":
			c.keys = append(c.keys, i*3-nk)
			c.layers = append(c.layers, intLayerRef(int64(i*3-nk), bf))
			c.zero = 0
		case "uint64":
			c.keys = append(c.keys, uint64(i*2))
			c.layers = append(c.layers, uintLayerRef(uint64(i*2), bf))
			c.zero = uint64(0)
		default:
			s := fmt.Sprintf("key%06d", i)
			c.keys = append(c.keys, s)
			c.layers = append(c.layers, blobLayerRef([]byte(s), bf))
			c.zero = ""
		}
	}
	return c
}
