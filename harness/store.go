package main

// recStore is the harness's Persist: an in-memory name -> bytes map that
// records every Store and Load (with a global sequence number), can fail the
// i-th call, and can gate Store calls so that a schedule decides when each
// one completes. The library lets the caller supply the Persist, so no source
// hook is needed for observation, fault injection or scheduling.

import (
	"context"
	"errors"
	"fmt"
	"io"
	"os"
	"sync"
)

type storeEvent struct {
	Seq   int
	Kind  string // "store", "load"
	Name  string
	Bytes []byte
	Err   bool
}

type recStore struct {
	mu     sync.Mutex
	prefix string
	m      map[string][]byte
	seq    int

	// recording (only while rec is true)
	rec    bool
	events []storeEvent

	// fault injection: fail the n-th (1-based) Load / Store seen while armed
	failLoadAt  int
	failStoreAt int
	loadCount   int
	storeCount  int

	// optional gate: called (without the lock) before a Store takes effect;
	// it may block and may return an error to inject
	gate func(name string, b []byte) error
	// every Store ever issued, in order, for C08
	allStores []storeEvent
	keepAll   bool
	// read-only fallback consulted without any lock (race family: a frozen common base)
	parent map[string][]byte
	// noRec: begin/end do nothing (the store is shared by concurrent goroutines)
	noRec bool
	// inner, when set, is the real backend (e.g. the library's file store): bytes go to it and come from it, without any lock of
	// this wrapper held, so that concurrent callers really meet inside the backend
	inner interface {
		Store(context.Context, string, []byte) error
		Load(context.Context, string) ([]byte, error)
	}
}

var errInjected = errors.New("injected fault")

// injectedErr is the error an injected fault returns. Real backends fail with errors of many kinds - a per-request deadline, a
// cancelled request, a truncated stream, a missing or an existing file - and a caller of the library must get every one of them
// back; which one an injection returns is a function of the name (or position) it fails at, so that re-executions agree.
func injectedErr(at string) error {
	h := 0
	for i := 0; i < len(at); i++ {
		h = h*31 + int(at[i])
	}
	if h < 0 {
		h = -h
	}
	switch h % 8 {
	case 1:
		return fmt.Errorf("injected fault: %w", context.DeadlineExceeded)
	case 2:
		return fmt.Errorf("injected fault: %w", context.Canceled)
	case 3:
		return fmt.Errorf("injected fault: %w", io.EOF)
	case 4:
		return fmt.Errorf("injected fault: %w", os.ErrNotExist)
	case 5:
		return fmt.Errorf("injected fault: %w", os.ErrExist)
	case 6:
		return fmt.Errorf("injected fault: %w", io.ErrUnexpectedEOF)
	}
	return errInjected
}

func newRecStore(prefix string) *recStore {
	return &recStore{prefix: prefix, m: map[string][]byte{}}
}

func (s *recStore) NodeURLPrefix() string { return s.prefix }

func (s *recStore) Store(ctx context.Context, name string, b []byte) error {
	if s.gate != nil {
		if err := s.gate(name, b); err != nil {
			s.mu.Lock()
			s.seq++
			if s.rec {
				s.events = append(s.events, storeEvent{s.seq, "store", name, nil, true})
			}
			s.mu.Unlock()
			return err
		}
	}
	if s.inner != nil {
		err := s.inner.Store(ctx, name, b)
		s.mu.Lock()
		s.seq++
		if s.rec {
			s.events = append(s.events, storeEvent{s.seq, "store", name, append([]byte{}, b...), err != nil})
		}
		s.mu.Unlock()
		return err
	}
	s.mu.Lock()
	defer s.mu.Unlock()
	s.seq++
	s.storeCount++
	if s.failStoreAt > 0 && s.storeCount == s.failStoreAt {
		if s.rec {
			s.events = append(s.events, storeEvent{s.seq, "store", name, nil, true})
		}
		return injectedErr(name)
	}
	cp := append([]byte{}, b...)
	if s.rec {
		s.events = append(s.events, storeEvent{s.seq, "store", name, cp, false})
	}
	if s.keepAll {
		s.allStores = append(s.allStores, storeEvent{s.seq, "store", name, cp, false})
	}
	s.m[name] = cp
	return nil
}

func (s *recStore) Load(ctx context.Context, name string) ([]byte, error) {
	if s.inner != nil {
		b, err := s.inner.Load(ctx, name)
		s.mu.Lock()
		s.seq++
		if s.rec {
			s.events = append(s.events, storeEvent{s.seq, "load", name, nil, err != nil})
		}
		s.mu.Unlock()
		return b, err
	}
	s.mu.Lock()
	defer s.mu.Unlock()
	s.seq++
	s.loadCount++
	if s.failLoadAt > 0 && s.loadCount == s.failLoadAt {
		if s.rec {
			s.events = append(s.events, storeEvent{s.seq, "load", name, nil, true})
		}
		return nil, injectedErr(name)
	}
	b, ok := s.m[name]
	if !ok && s.parent != nil {
		b, ok = s.parent[name]
	}
	if s.rec {
		s.events = append(s.events, storeEvent{s.seq, "load", name, nil, !ok})
	}
	if !ok {
		return nil, fmt.Errorf("recStore: %s not found", name)
	}
	return append([]byte{}, b...), nil
}

// begin starts recording an operation and clears fault counters.
func (s *recStore) begin() {
	if s.noRec {
		return
	}
	s.mu.Lock()
	s.rec = true
	s.events = nil
	s.loadCount = 0
	s.storeCount = 0
	s.mu.Unlock()
}

// end stops recording and returns what the operation did.
func (s *recStore) end() []storeEvent {
	if s.noRec {
		return nil
	}
	s.mu.Lock()
	defer s.mu.Unlock()
	s.rec = false
	s.failLoadAt = 0
	s.failStoreAt = 0
	ev := s.events
	s.events = nil
	return ev
}

func (s *recStore) has(name string) bool {
	if s.inner != nil {
		_, ok := s.get(name)
		return ok
	}
	s.mu.Lock()
	defer s.mu.Unlock()
	_, ok := s.m[name]
	return ok
}

func (s *recStore) get(name string) ([]byte, bool) {
	if s.inner != nil {
		b, err := s.inner.Load(context.Background(), name)
		return b, err == nil
	}
	s.mu.Lock()
	defer s.mu.Unlock()
	b, ok := s.m[name]
	if !ok && s.parent != nil {
		b, ok = s.parent[name]
	}
	return b, ok
}

func distinctLoads(ev []storeEvent) (total int, distinct int) {
	seen := map[string]bool{}
	for _, e := range ev {
		if e.Kind == "load" {
			total++
			seen[e.Name] = true
		}
	}
	return total, len(seen)
}

func storesOf(ev []storeEvent) []storeEvent {
	var r []storeEvent
	for _, e := range ev {
		if e.Kind == "store" {
			r = append(r, e)
		}
	}
	return r
}
