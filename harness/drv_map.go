package main

// Driver of the "map" family (C01 C02 C04 C05 C08 C09 C13 C16): executes
// histories of public calls on the real library and logs one ndjson event per
// call with its result and the projected abstract state of EVERY live handle
// and retained root. TraceMast.tla decides whether the log is a behaviour of
// the specification.

import (
	"bytes"
	"context"
	"encoding/json"
	"fmt"
	"math/rand"
	"sync"
	"sync/atomic"

	"github.com/jrhy/mast"
)

var ctx = context.Background()

type mapCfg struct {
	ID     int    `json:"id"`
	Bf     uint   `json:"bf"`
	NK     int    `json:"nk"`
	NV     int    `json:"nv"`
	KT     string `json:"kt"`
	VT     string `json:"vt"`
	NF     string `json:"nf"`    // "bin" | "v1"
	Cache  string `json:"cache"` // "none" | "large" | "tiny"
	Layers []int  `json:"layers"`
	Src    string `json:"src"`   // "random" | "tlc"
	Marsh  string `json:"marsh"` // "" (default JSON) | "gob" (custom marshaler, registered types)
	Cmp    bool   `json:"cmp"`   // a caller-supplied KeyCompare (same order as the default one)
	Rev    bool   `json:"rev"`   // with Cmp: the caller-supplied KeyCompare sorts in the reverse of the default order
	InMem  bool   `json:"inmem"` // trees made by NewInMemory(): no store, default branch factor, never persisted
}

type obsT struct {
	H      int     `json:"h"`
	Size   int     `json:"size"`
	Height int     `json:"height"`
	Dirty  bool    `json:"dirty"`
	Ents   [][]int `json:"ents"`
	Err    string  `json:"err"`
}

type robsT struct {
	R    int     `json:"r"`
	Ents [][]int `json:"ents"`
	Size int     `json:"size"`
	Err  string  `json:"err"`
}

type mapEvent struct {
	Op    string  `json:"op"`
	H     int     `json:"h"`
	G     int     `json:"g"`
	K     int     `json:"k"`
	V     int     `json:"v"`
	R     int     `json:"r"`
	Res   string  `json:"res"` // ok | err | panic
	Msg   string  `json:"msg"`
	Found bool    `json:"found"`
	RV    int     `json:"rv"`
	Loads int     `json:"loads"`  // Load calls issued by the operation itself
	DLoad int     `json:"dloads"` // distinct names among them
	Ents  [][]int `json:"ents"`   // result of iter / cursor walk
	// MakeRoot
	Link     []term   `json:"link"`
	Name     string   `json:"name"`
	RH       int      `json:"rh"`
	RS       int      `json:"rs"`
	RBF      int      `json:"rbf"`
	RNF      string   `json:"rnf"`
	W        []term   `json:"w"`
	WNames   []string `json:"wnames"`
	JSON     bool     `json:"json"`
	Cached   bool     `json:"cached"`
	CacheMut int      `json:"cachemut"` // node objects handed to the shared cache whose contents changed during this call
	Obs      []obsT   `json:"obs"`
	RObs     []robsT  `json:"robs"`
	Cfg      *mapCfg  `json:"cfg,omitempty"`
}

type mapHandle struct {
	m      *mast.Mast
	cursor *mast.Cursor
	kind   string // "tree" | "cursor"
}

type mapRoot struct {
	id   int
	root *mast.Root
}

type mapRun struct {
	cfg     mapCfg
	kc      *keyCodec
	vc      *valCodec
	st      *recStore
	watch   *watchCache
	persist mast.Persist // when set, what the trees are given instead of st
	cache   mast.NodeCache
	hs      map[int]*mapHandle
	roots   []mapRoot
	nextR   int
	out     *json.Encoder
	proj    *projector
	nsteps  int
}

func nfOf(s string) mast.CreateRemoteOptions {
	if s == "v1" {
		return mast.CreateRemoteOptions{NodeFormat: mast.V1Marshaler}
	}
	return mast.CreateRemoteOptions{NodeFormat: mast.V115Binary}
}

func (r *mapRun) remoteCfg(withCache bool) *mast.RemoteConfig {
	c := &mast.RemoteConfig{
		KeysLike:                r.kc.zero,
		ValuesLike:              r.vc.zero,
		StoreImmutablePartsWith: r.st,
	}
	if r.persist != nil {
		c.StoreImmutablePartsWith = r.persist
	}
	if withCache && r.cache != nil {
		c.NodeCache = r.cache
	}
	if r.cfg.Marsh == "gob" {
		c.Marshal, c.Unmarshal, c.UnmarshalerUsesRegisteredTypes = gobMarshal, gobUnmarshal, true
	}
	if r.cfg.Marsh == "jsonreg" {
		// default JSON marshaler, but whole nodes are decoded in one step ("registered types"): round-trips for string keys and values
		c.UnmarshalerUsesRegisteredTypes = true
	}
	if r.cfg.Cmp {
		def := mast.DefaultKeyCompare(json.Marshal)
		c.KeyCompare = func(a, b interface{}) (int, error) { x, err := def(a, b); return 7 * x, err } // same sign, other magnitude
		if r.cfg.Rev {
			c.KeyCompare = func(a, b interface{}) (int, error) { x, err := def(a, b); return -3 * x, err } // descending
		}
	}
	return c
}

func newMapRun(cfg mapCfg, rng *rand.Rand, out *json.Encoder) *mapRun {
	r := &mapRun{cfg: cfg, out: out, hs: map[int]*mapHandle{}}
	var ul []int
	if cfg.KT == "userkey" && cfg.Layers != nil {
		ul = cfg.Layers
	}
	r.kc = newKeyCodec(cfg.KT, cfg.NK, cfg.Bf, rng, ul, 3)
	if cfg.Cmp && cfg.Rev {
		r.kc.reverse()
	}
	r.cfg.Layers = r.kc.layers
	r.vc = newValCodec(cfg.VT)
	r.st = newRecStore(fmt.Sprintf("mem-%d", cfg.ID))
	r.st.keepAll = true
	switch cfg.Cache {
	case "large":
		r.watch = newWatchCache(mast.NewNodeCache(1000))
		r.cache = r.watch
	case "tiny":
		r.watch = newWatchCache(mast.NewNodeCache(2))
		r.cache = r.watch
	}
	r.proj = &projector{nf: cfg.NF, kc: r.kc, vc: r.vc, st: r.st, gob: cfg.Marsh == "gob"}
	return r
}

// guard runs f, converting a panic into a result.
func guard(f func() error) (res string, msg string) {
	defer func() {
		if p := recover(); p != nil {
			res, msg = "panic", fmt.Sprint(p)
		}
	}()
	if err := f(); err != nil {
		return "err", err.Error()
	}
	return "ok", ""
}

func (r *mapRun) iterEnts(m *mast.Mast) ([][]int, string) {
	ents := [][]int{}
	res, msg := guard(func() error {
		return m.Iter(ctx, func(k, v interface{}) error {
			ents = append(ents, []int{r.kc.Rank(k), r.vc.Rank(v)})
			return nil
		})
	})
	if res != "ok" {
		return [][]int{}, res + ": " + msg
	}
	return ents, ""
}

func (r *mapRun) observe(ev *mapEvent) {
	ev.Obs = []obsT{}
	ev.RObs = []robsT{}
	for id := 1; id <= 8; id++ {
		h, ok := r.hs[id]
		if !ok || h.kind != "tree" {
			continue
		}
		o := obsT{H: id}
		o.Ents, o.Err = r.iterEnts(h.m)
		o.Size = int(h.m.Size())
		o.Height = int(h.m.Height())
		o.Dirty = h.m.IsDirty()
		ev.Obs = append(ev.Obs, o)
	}
	for _, rr := range r.roots {
		ro := robsT{R: rr.id, Ents: [][]int{}}
		var m *mast.Mast
		res, msg := guard(func() error {
			var err error
			m, err = rr.root.LoadMast(ctx, r.remoteCfg(false))
			return err
		})
		if res != "ok" {
			ro.Err = res + ": " + msg
		} else {
			ro.Ents, ro.Err = r.iterEnts(m)
			ro.Size = int(m.Size())
		}
		ev.RObs = append(ev.RObs, ro)
	}
}

func (r *mapRun) emitNoObs(ev *mapEvent) { r.emit(ev) }

func (r *mapRun) emit(ev *mapEvent) {
	if ev.Ents == nil {
		ev.Ents = [][]int{}
	}
	if ev.Link == nil {
		ev.Link = []term{}
	}
	if ev.W == nil {
		ev.W = []term{}
	}
	if ev.WNames == nil {
		ev.WNames = []string{}
	}
	r.observe(ev)
	if r.watch != nil {
		ev.CacheMut = len(r.watch.check())
	}
	r.out.Encode(ev)
	r.nsteps++
}

type absOp struct {
	Op     string `json:"op"`
	H      int    `json:"h"`
	G      int    `json:"g"`
	K      int    `json:"k"`
	V      int    `json:"v"`
	R      int    `json:"r"`
	JSON   bool   `json:"json"`
	Cached bool   `json:"cached"`
	Fault  bool   `json:"fault"` // root: Store calls fail at random during this MakeRoot
}

func (r *mapRun) reset() {
	ev := &mapEvent{Op: "reset", Cfg: &r.cfg}
	r.emit(ev)
}

// exec performs one abstract operation on the real library.
func (r *mapRun) exec(op absOp) {
	ev := &mapEvent{Op: op.Op, H: op.H, G: op.G, K: op.K, V: op.V, R: op.R, JSON: op.JSON, Cached: op.Cached}
	var h *mapHandle
	if op.H != 0 {
		h = r.hs[op.H]
	}
	switch op.Op {
	case "ins", "del", "get", "iter", "size", "clone", "cursor", "root":
		if h == nil || h.m == nil {
			return // the handle was never obtained (an earlier call failed and was reported): nothing to execute
		}
	case "cwalk":
		if g := r.hs[op.G]; g == nil || g.cursor == nil {
			return
		}
	}
	if r.cfg.InMem && (op.Op == "root" || op.Op == "load") {
		return // trees without a store are never persisted
	}
	r.st.begin()
	switch op.Op {
	case "new":
		var m *mast.Mast
		ev.Res, ev.Msg = guard(func() error {
			if r.cfg.InMem {
				im := mast.NewInMemory()
				m = &im
				return nil
			}
			o := nfOf(r.cfg.NF)
			o.BranchFactor = r.cfg.Bf
			var err error
			m, err = mast.NewRoot(&o).LoadMast(ctx, r.remoteCfg(true))
			return err
		})
		if ev.Res == "ok" {
			r.hs[op.H] = &mapHandle{m: m, kind: "tree"}
		}
	case "ins":
		ev.Res, ev.Msg = guard(func() error { return h.m.Insert(ctx, r.kc.Key(op.K), r.vc.Val(op.V)) })
	case "del":
		ev.Res, ev.Msg = guard(func() error { return h.m.Delete(ctx, r.kc.Key(op.K), r.vc.Val(op.V)) })
	case "get":
		var v interface{}
		ev.Res, ev.Msg = guard(func() error {
			var err error
			ev.Found, err = h.m.Get(ctx, r.kc.Key(op.K), &v)
			return err
		})
		if ev.Res == "ok" && ev.Found {
			ev.RV = r.vc.Rank(v)
		}
	case "iter":
		var msg string
		ev.Ents, msg = r.iterEnts(h.m)
		ev.Res = "ok"
		if msg != "" {
			ev.Res, ev.Msg = "err", msg
			if len(msg) > 5 && msg[:5] == "panic" {
				ev.Res = "panic"
			}
		}
	case "size":
		ev.Res = "ok"
		ev.RV = int(h.m.Size())
	case "clone":
		var m2 mast.Mast
		ev.Res, ev.Msg = guard(func() error {
			var err error
			m2, err = h.m.Clone(ctx)
			return err
		})
		if ev.Res == "ok" {
			r.hs[op.G] = &mapHandle{m: &m2, kind: "tree"}
		}
	case "cursor":
		// open two cursors: walk the first at once (reference), keep the second
		var c1, c2 *mast.Cursor
		ev.Res, ev.Msg = guard(func() error {
			var err error
			c1, err = h.m.Cursor(ctx)
			if err != nil {
				return err
			}
			c2, err = h.m.Cursor(ctx)
			return err
		})
		if ev.Res == "ok" {
			var wres string
			ev.Ents, wres = r.walk(c1)
			if wres != "" {
				ev.Msg = "walk: " + wres
				ev.Found = false
			} else {
				ev.Found = true
			}
			r.hs[op.G] = &mapHandle{cursor: c2, kind: "cursor"}
		}
	case "cwalk":
		g := r.hs[op.G]
		var wres string
		ev.Ents, wres = r.walk(g.cursor)
		ev.Res = "ok"
		if wres != "" {
			ev.Res, ev.Msg = "err", wres
		}
		delete(r.hs, op.G)
	case "root":
		var root *mast.Root
		injected := int32(0)
		if op.Fault {
			var gmu sync.Mutex
			grng := rand.New(rand.NewSource(int64(r.nextR)*7919 + int64(op.H)))
			r.st.gate = func(name string, b []byte) error {
				gmu.Lock()
				defer gmu.Unlock()
				if grng.Intn(2) == 0 {
					atomic.AddInt32(&injected, 1)
					return injectedErr(name)
				}
				return nil
			}
		}
		ev.Res, ev.Msg = guard(func() error {
			var err error
			root, err = h.m.MakeRoot(ctx)
			return err
		})
		if op.Fault {
			r.st.gate = nil // (only a faulty root installs a gate here; stores shared by several goroutines are left alone)
		}
		if ev.Res == "err" && atomic.LoadInt32(&injected) > 0 {
			ev.Op = "froot" // the error is the injected one: nothing may have changed for anybody
		}
		if ev.Res == "ok" {
			if root.Link != nil {
				ev.Name = *root.Link
			}
			ev.RH, ev.RS, ev.RBF = int(root.Height), int(root.Size), int(root.BranchFactor)
			ev.RNF = root.NodeFormat
			r.nextR++
			ev.R = r.nextR
			r.roots = append(r.roots, mapRoot{id: r.nextR, root: root})
			if len(r.roots) > 3 {
				r.roots = r.roots[1:]
			}
		}
	case "load":
		var rr *mapRoot
		for i := range r.roots {
			if r.roots[i].id == op.R {
				rr = &r.roots[i]
			}
		}
		if rr == nil {
			r.st.end()
			return // the root is no longer retained by the driver: nothing to execute
		}
		var m *mast.Mast
		ev.Res, ev.Msg = guard(func() error {
			root := rr.root
			if op.JSON {
				b, err := json.Marshal(root)
				if err != nil {
					return err
				}
				var r2 mast.Root
				if err := json.Unmarshal(b, &r2); err != nil {
					return err
				}
				root = &r2
			}
			// the Root record belongs to the caller: the tree is opened from a copy that the caller then reuses for something else
			scratch := *root
			var err error
			m, err = scratch.LoadMast(ctx, r.remoteCfg(op.Cached))
			scratch = mast.Root{Size: 12345, Height: 7, BranchFactor: 9, NodeFormat: "overwritten-by-the-caller"}
			return err
		})
		if ev.Res == "ok" {
			r.hs[op.G] = &mapHandle{m: m, kind: "tree"}
		}
	case "drop":
		delete(r.hs, op.H)
		ev.Res = "ok"
	default:
		panic("unknown op " + op.Op)
	}
	sev := r.st.end()
	ev.Loads, ev.DLoad = distinctLoads(sev)
	if op.Op == "root" && ev.Res == "ok" {
		ev.Link = r.proj.kid(ev.Name)
		for _, s := range storesOf(sev) {
			if !s.Err {
				ev.W = append(ev.W, r.proj.node(s.Name))
				ev.WNames = append(ev.WNames, s.Name)
			}
		}
	}
	r.emit(ev)
}

// walk visits a cursor's version with Min + Forward only.
func (r *mapRun) walk(c *mast.Cursor) ([][]int, string) {
	ents := [][]int{}
	res, msg := guard(func() error {
		if err := c.Min(ctx); err != nil {
			return err
		}
		for i := 0; i < 1000; i++ {
			k, v, ok := c.Get()
			if !ok {
				return nil
			}
			ents = append(ents, []int{r.kc.Rank(k), r.vc.Rank(v)})
			if err := c.Forward(ctx); err != nil {
				return err
			}
		}
		return fmt.Errorf("cursor walk does not end")
	})
	if res != "ok" {
		return ents, res + ": " + msg
	}
	return ents, ""
}

// ---------- random programs ----------

const maxHandles = 5

type shadow struct {
	live map[int]map[int]int // handle -> key -> value (only to choose sensible operations)
	cur  map[int]bool        // cursor handles
}

// cumulative weights (out of 100) of: new, ins, del, get, iter, clone, cursor, cwalk, root, load, (rest: drop)
var mapProfiles = map[string][10]int{
	"general":  {2, 40, 58, 66, 69, 75, 78, 81, 90, 96},
	"versions": {2, 30, 42, 46, 48, 60, 66, 72, 84, 96},
	"reload":   {1, 36, 52, 58, 60, 64, 65, 66, 82, 98},
	"batches":  {1, 45, 70, 72, 73, 76, 76, 76, 90, 98},
	"nocache":  {1, 36, 58, 72, 73, 77, 77, 77, 88, 98},
}

func randomMapTrace(id int, seed int64, steps int, out *json.Encoder, fixed *mapCfg, profile string) {
	rng := rand.New(rand.NewSource(seed))
	w, okp := mapProfiles[profile]
	if !okp {
		w = mapProfiles["general"]
	}
	cfg := mapCfg{ID: id, Src: "random"}
	if fixed != nil {
		cfg = *fixed
		cfg.ID = id
	} else {
		cfg.Bf = []uint{2, 2, 3, 4, 16}[rng.Intn(5)]
		cfg.NK = 4 + rng.Intn(7)
		cfg.NV = 2
		cfg.KT = keyTypes[rng.Intn(len(keyTypes))]
		cfg.VT = valTypes[rng.Intn(len(valTypes))]
		cfg.NF = []string{"bin", "v1"}[rng.Intn(2)]
		cfg.Cache = []string{"none", "large", "tiny"}[rng.Intn(3)]
		if (profile == "reload" || profile == "general") && rng.Intn(5) == 0 {
			// custom marshaler with registered types: element-wise encoding of the binary format
			cfg.Marsh = "gob"
			cfg.NF = "bin"
			cfg.KT = []string{"int", "int64", "uint", "uint64", "string", "bytes", "userkey"}[rng.Intn(7)]
		}
		cfg.Cmp = rng.Intn(4) == 0 && cfg.KT != "struct"
		cfg.Rev = cfg.Cmp && rng.Intn(2) == 0
		if (profile == "reload" || profile == "general" || profile == "versions" || profile == "nocache" || profile == "batches") && cfg.Marsh == "" && rng.Intn(8) == 0 {
			cfg.Marsh = "jsonreg"
			cfg.NF = "v1" // (in the binary format the element type comes from KeysLike / ValuesLike even then: nil ValuesLike means no values are kept)
			cfg.KT, cfg.VT = "string", []string{"string", "nilstr", "nilonly"}[rng.Intn(3)]
			if cfg.VT == "nilonly" {
				// a pure set: every value nil, in either format
				cfg.NV = 1
				cfg.NF = []string{"bin", "v1"}[rng.Intn(2)]
			}
			cfg.Cmp = false
		}
		if profile == "versions" {
			// the shared cache is what makes versions meet in the same node objects
			cfg.Cache = []string{"large", "large", "tiny", "none"}[rng.Intn(4)]
			cfg.NK = 5 + rng.Intn(5)
			cfg.Bf = []uint{2, 2, 2, 3, 4}[rng.Intn(5)]
		}
		if profile == "c08" {
			cfg.NK = 6
			if rng.Intn(4) == 0 {
				cfg.NK = 14 // taller trees: merges and splits of key-less middle nodes
			}
			cfg.Bf = []uint{2, 3, 16}[rng.Intn(3)]
			cfg.KT = []string{"int", "string", "bytes", "userkey", "struct", "uint64"}[rng.Intn(6)]
			cfg.VT = []string{"int", "string", "intslice"}[rng.Intn(3)]
		}
		if (profile == "general" || profile == "versions") && cfg.Marsh == "" && !cfg.Cmp && rng.Intn(10) == 0 {
			cfg.InMem = true
			cfg.Bf = mast.DefaultBranchFactor
			cfg.NK = 18 + rng.Intn(5) // more than one level needs more than 16 entries
			cfg.Cache = "none"
		}
		if profile == "nocache" {
			cfg.Cache = "none"
			cfg.NK = 8 + rng.Intn(7)
			cfg.Bf = []uint{2, 2, 3, 4}[rng.Intn(4)]
		}
	}
	crng := rng
	if profile == "c08" {
		// the same key universe for every history of a configuration, so that different histories meet in the same nodes
		h := int64(len(cfg.KT))*1000003 + int64(cfg.Bf)*7919 + int64(cfg.KT[0])*31 + int64(cfg.KT[len(cfg.KT)-1]) + int64(cfg.NK)*104729
		crng = rand.New(rand.NewSource(h))
	}
	r := newMapRun(cfg, crng, out)
	r.reset()
	sh := &shadow{live: map[int]map[int]int{}, cur: map[int]bool{}}
	r.exec(absOp{Op: "new", H: 1})
	sh.live[1] = map[int]int{}
	if cfg.InMem {
		// the default branch factor needs more than 16 entries for a second level
		for k := 1; k <= cfg.NK; k++ {
			if rng.Intn(8) != 0 {
				v := 1 + rng.Intn(cfg.NV)
				r.exec(absOp{Op: "ins", H: 1, K: k, V: v})
				sh.live[1][k] = v
			}
		}
	}
	pickLive := func() int {
		var ids []int
		for id := range sh.live {
			ids = append(ids, id)
		}
		if len(ids) == 0 {
			return 0
		}
		// deterministic order
		for i := 0; i < len(ids); i++ {
			for j := i + 1; j < len(ids); j++ {
				if ids[j] < ids[i] {
					ids[i], ids[j] = ids[j], ids[i]
				}
			}
		}
		return ids[rng.Intn(len(ids))]
	}
	freeSlot := func() int {
		for id := 1; id <= maxHandles; id++ {
			if _, ok := sh.live[id]; !ok && !sh.cur[id] {
				return id
			}
		}
		return 0
	}
	rootModels := map[int]map[int]int{}
	for s := 0; s < steps; s++ {
		h := pickLive()
		x := rng.Intn(100)
		switch {
		case h == 0 || x < w[0]:
			if g := freeSlot(); g != 0 {
				r.exec(absOp{Op: "new", H: g})
				if _, ok := r.hs[g]; ok {
					sh.live[g] = map[int]int{}
				}
			}
		case x < w[1] && (x%7 == 0 || (profile == "versions" && x%3 == 0)):
			// a burst around a structural change: (persist,) insert the absent key of the highest layer (splits the nodes
			// below it), then change or remove its neighbours (edits the halves), or remove the present key of the highest layer
			// (merges) and then touch its neighbours
			if rng.Intn(2) == 0 {
				before := r.nextR
				r.exec(absOp{Op: "root", H: h})
				if r.nextR != before {
					cp := map[int]int{}
					for k, v := range sh.live[h] {
						cp[k] = v
					}
					rootModels[r.nextR] = cp
				}
			}
			pick, insert := 0, rng.Intn(3) != 0
			for k := 1; k <= cfg.NK; k++ {
				_, present := sh.live[h][k]
				if present != insert && (pick == 0 || r.kc.layers[k-1] > r.kc.layers[pick-1]) {
					pick = k
				}
			}
			if pick != 0 {
				if insert {
					v := 1 + rng.Intn(cfg.NV)
					r.exec(absOp{Op: "ins", H: h, K: pick, V: v})
					sh.live[h][pick] = v
				} else {
					r.exec(absOp{Op: "del", H: h, K: pick, V: sh.live[h][pick]})
					delete(sh.live[h], pick)
				}
				// the neighbours are edited on the same handle, or on another one (which may share nodes with it through a
				// clone or the cache)
				hn := h
				if rng.Intn(2) == 0 {
					if g := pickLive(); g != 0 {
						hn = g
					}
				}
				for _, nb := range []int{pick - 1, pick + 1, pick - 2, pick + 2} {
					if nb < 1 || nb > cfg.NK || rng.Intn(3) == 0 {
						continue
					}
					if old, present := sh.live[hn][nb]; present && rng.Intn(3) == 0 {
						r.exec(absOp{Op: "del", H: hn, K: nb, V: old})
						delete(sh.live[hn], nb)
					} else {
						v := 1 + rng.Intn(cfg.NV)
						if present {
							v = old%cfg.NV + 1
						}
						r.exec(absOp{Op: "ins", H: hn, K: nb, V: v})
						sh.live[hn][nb] = v
					}
				}
			}
		case x < w[1]:
			k, v := 1+rng.Intn(cfg.NK), 1+rng.Intn(cfg.NV)
			r.exec(absOp{Op: "ins", H: h, K: k, V: v})
			sh.live[h][k] = v
		case x < w[2]:
			// delete: mostly a present key with its value; sometimes absent / wrong value
			k := 1 + rng.Intn(cfg.NK)
			if len(sh.live[h]) > 0 && rng.Intn(4) != 0 {
				n := rng.Intn(len(sh.live[h]))
				for kk := 1; kk <= cfg.NK; kk++ {
					if _, ok := sh.live[h][kk]; ok {
						if n == 0 {
							k = kk
							break
						}
						n--
					}
				}
			}
			v, present := sh.live[h][k]
			if !present {
				v = 1 + rng.Intn(cfg.NV)
			} else if rng.Intn(6) == 0 {
				v = v%cfg.NV + 1 // wrong value
			}
			r.exec(absOp{Op: "del", H: h, K: k, V: v})
			if present && sh.live[h][k] == v {
				delete(sh.live[h], k)
			}
		case x < w[3]:
			r.exec(absOp{Op: "get", H: h, K: 1 + rng.Intn(cfg.NK)})
		case x < w[4]:
			r.exec(absOp{Op: "iter", H: h})
		case x < w[5]:
			if g := freeSlot(); g != 0 {
				r.exec(absOp{Op: "clone", H: h, G: g})
				if _, ok := r.hs[g]; ok {
					cp := map[int]int{}
					for k, v := range sh.live[h] {
						cp[k] = v
					}
					sh.live[g] = cp
				}
			}
		case x < w[6]:
			if g := freeSlot(); g != 0 {
				r.exec(absOp{Op: "cursor", H: h, G: g})
				if _, ok := r.hs[g]; ok {
					sh.cur[g] = true
				}
			}
		case x < w[7]:
			for g := 1; g <= maxHandles; g++ {
				if sh.cur[g] {
					r.exec(absOp{Op: "cwalk", G: g})
					delete(sh.cur, g)
					break
				}
			}
		case x < w[8]:
			before := r.nextR
			r.exec(absOp{Op: "root", H: h, Fault: (profile == "versions" || profile == "general" || profile == "c08") && !cfg.InMem && rng.Intn(5) == 0})
			if r.nextR != before {
				cp := map[int]int{}
				for k, v := range sh.live[h] {
					cp[k] = v
				}
				rootModels[r.nextR] = cp
			}
		case x < w[9] && x%4 == 0 && profile == "versions" && len(r.roots) > 0:
			// several handles on ONE retained version, opened one after the other through the shared cache, each modified, some persisted
			rr := r.roots[rng.Intn(len(r.roots))]
			for rep := 0; rep < 3; rep++ {
				g := freeSlot()
				retained := false
				for i := range r.roots {
					retained = retained || r.roots[i].id == rr.id
				}
				if g == 0 || !retained {
					break
				}
				r.exec(absOp{Op: "load", G: g, R: rr.id, Cached: true})
				if _, ok := r.hs[g]; !ok {
					break
				}
				cp := map[int]int{}
				for k, v := range rootModels[rr.id] {
					cp[k] = v
				}
				sh.live[g] = cp
				for e := 0; e < 1+rng.Intn(2); e++ {
					k, v := 1+rng.Intn(cfg.NK), 1+rng.Intn(cfg.NV)
					if old, ok := sh.live[g][k]; ok && rng.Intn(3) == 0 {
						r.exec(absOp{Op: "del", H: g, K: k, V: old})
						delete(sh.live[g], k)
					} else {
						r.exec(absOp{Op: "ins", H: g, K: k, V: v})
						sh.live[g][k] = v
					}
				}
				if rep > 0 {
					before := r.nextR
					r.exec(absOp{Op: "root", H: g})
					if r.nextR != before {
						cp2 := map[int]int{}
						for k, v := range sh.live[g] {
							cp2[k] = v
						}
						rootModels[r.nextR] = cp2
					}
				}
				if rng.Intn(2) == 0 {
					r.exec(absOp{Op: "drop", H: g})
					delete(sh.live, g)
				}
			}
		case x < w[9]:
			if g := freeSlot(); g != 0 && len(r.roots) > 0 {
				rr := r.roots[rng.Intn(len(r.roots))]
				if (profile == "reload" || ((profile == "general" || profile == "versions") && rng.Intn(2) == 0)) && r.watch != nil && rng.Intn(3) == 0 {
					// as after a restart: the shared cache is cold, it did not witness the writes (the objects it handed out before
					// stay watched)
					size := 1000
					if cfg.Cache == "tiny" {
						size = 2
					}
					r.watch.inner = mast.NewNodeCache(size)
				}
				r.exec(absOp{Op: "load", G: g, R: rr.id, JSON: rng.Intn(2) == 0, Cached: rng.Intn(3) != 0})
				if _, ok := r.hs[g]; ok {
					cp := map[int]int{}
					for k, v := range rootModels[rr.id] {
						cp[k] = v
					}
					sh.live[g] = cp
				}
			}
		default:
			if len(sh.live) > 1 {
				r.exec(absOp{Op: "drop", H: h})
				delete(sh.live, h)
			}
		}
	}
	// end of trace: walk remaining cursors, persist every live tree
	for g := 1; g <= maxHandles; g++ {
		if sh.cur[g] {
			r.exec(absOp{Op: "cwalk", G: g})
		}
	}
	for id := 1; id <= maxHandles; id++ {
		if _, ok := sh.live[id]; ok {
			r.exec(absOp{Op: "root", H: id})
		}
	}
	if storesOut != nil {
		if rng.Intn(10) == 0 {
			r.concurrentCloneFlush(rng)
		}
		r.dumpStores()
	}
}

// concurrentCloneFlush: a tree and its clone, modified differently, are persisted at the same time from two goroutines. The
// trees are large enough for the two flushes to overlap; every Store call goes to the C08 dump under a namespace of its own.
func (r *mapRun) concurrentCloneFlush(rng *rand.Rand) {
	nk := 120 + rng.Intn(120)
	bf := []uint{2, 3, 4}[rng.Intn(3)]
	kc := bigKeyCodec("int", nk, bf)
	vc := newValCodec("int")
	st := newRecStore(fmt.Sprintf("cloneflush-%d", r.cfg.ID))
	st.keepAll = true
	o := nfOf(r.cfg.NF)
	o.BranchFactor = bf
	m1, err := mast.NewRoot(&o).LoadMast(ctx, &mast.RemoteConfig{KeysLike: 0, ValuesLike: 0, StoreImmutablePartsWith: st})
	if err != nil {
		return
	}
	for k := 1; k <= nk; k++ {
		m1.Insert(ctx, kc.Key(k), 1)
	}
	// sometimes the tree has been persisted before it is cloned (its clones then start from shared, clean nodes)
	if rng.Intn(2) == 0 {
		m1.MakeRoot(ctx)
	}
	trees := []*mast.Mast{m1}
	for i := 0; i < 1+rng.Intn(4); i++ {
		c, err := m1.Clone(ctx)
		if err != nil {
			return
		}
		cc := c
		trees = append(trees, &cc)
	}
	for i := 0; i < 40; i++ {
		for j, m := range trees {
			m.Insert(ctx, kc.Key(1+rng.Intn(nk)), 2+j)
		}
	}
	done := make(chan struct{}, len(trees))
	for _, m := range trees {
		go func(m *mast.Mast) {
			guard(func() error { _, err := m.MakeRoot(ctx); return err })
			done <- struct{}{}
		}(m)
	}
	for range trees {
		<-done
	}
	ns := fmt.Sprintf("cloneflush/%s/bf%d/nk%d", r.cfg.NF, bf, nk)
	for _, s := range st.allStores {
		ev := stEvent{Op: "st", NS: ns, Tr: r.cfg.ID, Name: s.Name, BDig: nodeName(s.Bytes), HashOk: nodeName(s.Bytes) == s.Name,
			Node: stNode{K: []int{}, V: []int{}, C: []string{}}}
		if rn, err := decodeNode(r.cfg.NF, s.Bytes); err == nil {
			ev.Dec = true
			for i := range rn.Keys {
				ev.Node.K = append(ev.Node.K, kc.RankFromJSON(rn.Keys[i]))
			}
			for i := range rn.Vals {
				ev.Node.V = append(ev.Node.V, vc.RankFromJSON(rn.Vals[i]))
			}
			ev.Node.C = append(ev.Node.C, rn.Links...)
			ev.Canon = bytes.Equal(canonEncode(r.cfg.NF, rn), s.Bytes)
		}
		storesOut.Encode(ev)
	}
}

// storesOut, when set, receives every Persist.Store call of every history (C08).
var storesOut *json.Encoder

type stNode struct {
	K []int    `json:"k"`
	V []int    `json:"v"`
	C []string `json:"c"`
}

type stEvent struct {
	Op     string `json:"op"`
	NS     string `json:"ns"`
	Tr     int    `json:"tr"`
	Name   string `json:"name"`
	BDig   string `json:"bdig"`
	HashOk bool   `json:"hashok"`
	Node   stNode `json:"node"`
	Dec    bool   `json:"dec"`
	Canon  bool   `json:"canon"` // the bytes are what the harness's own encoders give for the decoded entries and child names
}

// canonEncode: the one encoding the published formats give a node (elements as written; the link table left out when every link is nil).
func canonEncode(nf string, rn *rawNode) []byte {
	links := rn.Links
	all := true
	for _, l := range links {
		all = all && l == ""
	}
	if all {
		links = nil
	}
	if nf == "bin" {
		return encBin(rn.Keys, rn.Vals, links)
	}
	return encV1(rn.Keys, rn.Vals, links)
}

func (r *mapRun) dumpStores() {
	ns := fmt.Sprintf("%s/%s/%s/bf%d/%v", r.cfg.KT, r.cfg.VT, r.cfg.NF, r.cfg.Bf, r.kc.keys)
	for _, s := range r.st.allStores {
		ev := stEvent{Op: "st", NS: ns, Tr: r.cfg.ID, Name: s.Name, BDig: nodeName(s.Bytes), HashOk: nodeName(s.Bytes) == s.Name,
			Node: stNode{K: []int{}, V: []int{}, C: []string{}}}
		if rn, err := decodeNode(r.cfg.NF, s.Bytes); err == nil {
			ev.Dec = true
			for i := range rn.Keys {
				ev.Node.K = append(ev.Node.K, r.kc.RankFromJSON(rn.Keys[i]))
			}
			for i := range rn.Vals {
				ev.Node.V = append(ev.Node.V, r.vc.RankFromJSON(rn.Vals[i]))
			}
			ev.Node.C = append(ev.Node.C, rn.Links...)
			ev.Canon = bytes.Equal(canonEncode(r.cfg.NF, rn), s.Bytes)
		}
		storesOut.Encode(ev)
	}
}

// replayMapTrace executes a behaviour generated by TLC from MastGen.tla (spec -> code): the layer assignment TLC chose is
// reproduced with the user-Key codec, every step is executed on the real library and logged for TraceMast.
func replayMapTrace(id int, seed int64, beh behT, out *json.Encoder) {
	rng := rand.New(rand.NewSource(seed))
	cfg := mapCfg{ID: id, Bf: 2, NK: len(beh.Layers), NV: 2, KT: "userkey", VT: valTypes[rng.Intn(len(valTypes))],
		NF: []string{"bin", "v1"}[rng.Intn(2)], Cache: []string{"none", "large", "tiny"}[rng.Intn(3)], Layers: beh.Layers, Src: "tlc"}
	r := newMapRun(cfg, rng, out)
	r.reset()
	r.exec(absOp{Op: "new", H: 1})
	live := map[int]bool{1: true}
	for _, st := range beh.Steps {
		switch st.Op {
		case "new":
			live[st.H] = true
		case "clone":
			live[st.G] = true
		}
		r.exec(st)
	}
	for h := 1; h <= maxHandles; h++ {
		if live[h] {
			r.exec(absOp{Op: "root", H: h})
		}
	}
}

type transT struct {
	BF      int    `json:"bf"`
	Layers  []int  `json:"layers"`
	Present []int  `json:"present"`
	Op      string `json:"op"`
	K       int    `json:"k"`
}

// transMapTrace executes one transition enumerated by TLC from MastTrans.tla: reach the state (ascending inserts; in memory, or
// persisted, or persisted and reopened), apply the operation, persist.
// transFollowTrace (C02): the state of a TLC-enumerated transition is persisted and opened twice through one node cache; the
// transition and two further edits run on one of the handles; the other handle, the retained root and the node objects in the
// cache are looked at again after every call.
func transFollowTrace(id int, seed int64, tr transT, out *json.Encoder) {
	rng := rand.New(rand.NewSource(seed))
	cfg := mapCfg{ID: id, Bf: uint(tr.BF), NK: len(tr.Layers), NV: 2, KT: "userkey", VT: []string{"int", "string", "intslice"}[rng.Intn(3)],
		NF: []string{"bin", "v1"}[rng.Intn(2)], Cache: "large", Layers: tr.Layers, Src: "tlc-transition"}
	r := newMapRun(cfg, rng, out)
	r.reset()
	r.exec(absOp{Op: "new", H: 1})
	model := map[int]int{}
	for _, k := range tr.Present {
		r.exec(absOp{Op: "ins", H: 1, K: k, V: 1})
		model[k] = 1
	}
	before := r.nextR
	r.exec(absOp{Op: "root", H: 1})
	if r.nextR == before {
		return
	}
	root := r.nextR
	if rng.Intn(2) == 0 {
		// as after a restart: the cache did not witness the writes
		r.watch.inner = mast.NewNodeCache(1000)
	}
	r.exec(absOp{Op: "load", G: 2, R: root, Cached: true})
	r.exec(absOp{Op: "load", G: 3, R: root, Cached: true})
	if _, ok := r.hs[2]; !ok {
		return
	}
	switch tr.Op {
	case "ins", "upd":
		r.exec(absOp{Op: "ins", H: 2, K: tr.K, V: 2})
		model[tr.K] = 2
	case "del":
		r.exec(absOp{Op: "del", H: 2, K: tr.K, V: 1})
		delete(model, tr.K)
	}
	for i := 0; i < 3; i++ {
		k := 1 + rng.Intn(cfg.NK)
		if rng.Intn(10) < 7 {
			// near the place of the transition
			k = tr.K - 3 + rng.Intn(7)
			if k < 1 || k > cfg.NK {
				k = 1 + rng.Intn(cfg.NK)
			}
		}
		if v, ok := model[k]; ok && rng.Intn(2) == 0 {
			r.exec(absOp{Op: "del", H: 2, K: k, V: v})
			delete(model, k)
		} else {
			v := 3 - model[k]
			if !ok {
				v = 1 + rng.Intn(2)
			}
			r.exec(absOp{Op: "ins", H: 2, K: k, V: v})
			model[k] = v
		}
	}
	if rng.Intn(2) == 0 || storesOut != nil {
		r.exec(absOp{Op: "root", H: 2})
	}
	r.exec(absOp{Op: "iter", H: 3})
	if storesOut != nil {
		r.dumpStores()
	}
}

// directedShapes: three-level trees put together from groups of lower-layer keys separated by top-layer keys, where some groups
// have no key of the middle layer (their middle-level node is a key-less pass-through node); the transition removes or re-inserts
// a separator, which merges or splits the neighbouring groups at both levels.
func directedShapes(rng *rand.Rand, n int) []transT {
	var out []transT
	for len(out) < n {
		bf := []int{2, 2, 3, 4}[rng.Intn(4)]
		var layers []int
		var tops []int
		groups := 2 + rng.Intn(3)
		for g := 0; g < groups; g++ {
			sz := 1 + rng.Intn(4)
			keyless := rng.Intn(2) == 0
			for i := 0; i < sz; i++ {
				l := 0
				if !keyless && rng.Intn(2) == 0 {
					l = 1
				}
				layers = append(layers, l)
			}
			if g < groups-1 {
				layers = append(layers, 2)
				tops = append(tops, len(layers))
			}
		}
		if len(layers) > 16 {
			continue
		}
		present := []int{}
		for k := 1; k <= len(layers); k++ {
			present = append(present, k)
		}
		k := tops[rng.Intn(len(tops))]
		out = append(out, transT{BF: bf, Layers: layers, Present: present, Op: "del", K: k})
	}
	return out
}

func transMapTrace(id int, seed int64, tr transT, out *json.Encoder) {
	rng := rand.New(rand.NewSource(seed))
	cfg := mapCfg{ID: id, Bf: uint(tr.BF), NK: len(tr.Layers), NV: 2, KT: "userkey", VT: []string{"int", "string"}[rng.Intn(2)],
		NF: []string{"bin", "v1"}[rng.Intn(2)], Cache: []string{"none", "none", "large"}[rng.Intn(3)], Layers: tr.Layers, Src: "tlc-transition"}
	r := newMapRun(cfg, rng, out)
	r.reset()
	r.exec(absOp{Op: "new", H: 1})
	for _, k := range tr.Present {
		r.exec(absOp{Op: "ins", H: 1, K: k, V: 1})
	}
	h := 1
	switch id % 3 {
	case 1:
		r.exec(absOp{Op: "root", H: 1})
	case 2:
		before := r.nextR
		r.exec(absOp{Op: "root", H: 1})
		if r.nextR != before {
			r.exec(absOp{Op: "load", G: 2, R: r.nextR, Cached: true})
			if _, ok := r.hs[2]; ok {
				h = 2
			}
		}
	}
	switch tr.Op {
	case "ins", "upd":
		r.exec(absOp{Op: "ins", H: h, K: tr.K, V: 2})
	case "del":
		r.exec(absOp{Op: "del", H: h, K: tr.K, V: 1})
	}
	r.exec(absOp{Op: "root", H: h})
}
