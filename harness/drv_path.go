package main

// Driver "path" (C16 on large trees): trees of hundreds to thousands of entries are persisted; every probe operation runs on a
// freshly opened handle without any cache, and the Load calls it issues are counted. Keys are chosen to hit the seams of the
// tree: present and absent keys of every layer, keys below the minimum and above the maximum, keys of very high layers.

import (
	"encoding/json"
	"fmt"
	"math/rand"

	"github.com/jrhy/mast"
)

type pathEvent struct {
	Op     string `json:"op"`
	ID     int    `json:"id"`
	BF     int    `json:"bf"`
	N      int    `json:"n"`
	Kind   string `json:"kind"` // load | clone | get | ins | upd | noop | del
	Key    int    `json:"key"`
	Layer  int    `json:"layer"`
	Height int    `json:"height"`
	H2     int    `json:"h2"`
	Loads  int    `json:"loads"`
	DLoads int    `json:"dloads"`
	Res    string `json:"res"`
	Found  bool   `json:"found"`
}

func pathCase(id int, seed int64, out *json.Encoder) {
	rng := rand.New(rand.NewSource(seed))
	bf := []uint{2, 3, 4, 4, 16}[rng.Intn(5)]
	n := 150 + rng.Intn(2500)
	if bf == 2 {
		n = 100 + rng.Intn(600)
	}
	st := newRecStore(fmt.Sprintf("path-%d", id))
	nfo := nfOf([]string{"bin", "v1"}[rng.Intn(2)])
	nfo.BranchFactor = bf
	cfg := &mast.RemoteConfig{KeysLike: 0, ValuesLike: 0, StoreImmutablePartsWith: st}
	m, err := mast.NewRoot(&nfo).LoadMast(ctx, cfg)
	if err != nil {
		panic(err)
	}
	present := map[int]bool{}
	lo, hi := 1, n
	plateau := id%6 == 0 && bf <= 4
	if plateau {
		// a tree held at height h by its keys' layers, with exactly bf^(h+1) entries (the size at which the grow rule looks at the
		// top node without finding a reason to grow): every further insert of a key of a layer <= h keeps the height
		h := 1 + rng.Intn(2)
		want := 1
		for i := 0; i <= h; i++ {
			want *= int(bf)
		}
		hi = 0
		for k := 1; len(present) < want; k++ {
			hi = k
			if intLayerRef(int64(k), bf) <= h && rng.Intn(4) != 0 {
				if err := m.Insert(ctx, k, k); err != nil {
					panic(err)
				}
				present[k] = true
			}
		}
	} else {
		for k := lo; k <= hi; k++ {
			// (half of the keys of layer >= 3 stay absent, so that probes can insert them between their neighbours)
			if rng.Intn(10) != 0 && (intLayerRef(int64(k), bf) < 3 || rng.Intn(2) == 0) {
				if err := m.Insert(ctx, k, k); err != nil {
					panic(err)
				}
				present[k] = true
			}
		}
	}
	root, err := m.MakeRoot(ctx)
	if err != nil {
		panic(err)
	}
	emit := func(e pathEvent) {
		e.Op, e.ID, e.BF, e.N = "path", id, int(bf), len(present)
		out.Encode(e)
	}
	legacy := root.NodeFormat == string(mast.V1Marshaler) && rng.Intn(2) == 0
	open := func() *mast.Mast {
		r := *root
		if legacy {
			// a root record written before node formats were named: no NodeFormat field, JSON nodes
			r.NodeFormat = ""
		}
		st.begin()
		h, err := r.LoadMast(ctx, cfg)
		sev := st.end()
		if err != nil {
			panic(err)
		}
		t, d := distinctLoads(sev)
		emit(pathEvent{Kind: "load", Height: int(h.Height()), H2: int(h.Height()), Loads: t, DLoads: d, Res: "ok"})
		return h
	}
	pow := func(e int) int {
		p := 1
		for i := 0; i < e; i++ {
			p *= int(bf)
		}
		return p
	}
	probe := func() int {
		switch rng.Intn(7) {
		case 0: // far below the minimum, high layer
			return -pow(2+rng.Intn(5)) * (1 + rng.Intn(3))
		case 1: // far above the maximum, high layer
			return pow(2+rng.Intn(5))*(1+rng.Intn(3)) + hi
		case 2: // inside, a multiple of a power of the branch factor
			e := 1 + rng.Intn(5)
			if pow(e) > hi {
				e = 1 + rng.Intn(3)
			}
			return pow(e) * (1 + rng.Intn(hi/pow(e)+1))
		case 3:
			return -1 - rng.Intn(5)
		default:
			return lo + rng.Intn(hi-lo+1)
		}
	}
	for i := 0; i < 30; i++ {
		h := open()
		k := probe()
		ev := pathEvent{Key: k, Layer: intLayerRef(int64(k), bf), Height: int(h.Height())}
		st.begin()
		switch x := rng.Intn(10); {
		case x < 3:
			ev.Kind = "get"
			var v interface{}
			ev.Res, _ = guard(func() error { var err error; ev.Found, err = h.Get(ctx, k, &v); return err })
		case x < 7:
			switch {
			case !present[k]:
				ev.Kind = "ins"
				ev.Res, _ = guard(func() error { return h.Insert(ctx, k, k) })
			case rng.Intn(2) == 0:
				ev.Kind = "upd"
				ev.Res, _ = guard(func() error { return h.Insert(ctx, k, k+1) })
			default:
				ev.Kind = "noop"
				ev.Res, _ = guard(func() error { return h.Insert(ctx, k, k) })
			}
		case x < 9:
			ev.Kind = "del"
			if !present[k] {
				ev.Kind = "nodel"
			}
			ev.Res, _ = guard(func() error { return h.Delete(ctx, k, k) })
		default:
			if rng.Intn(2) == 0 {
				ev.Kind = "clone"
				ev.Res, _ = guard(func() error { _, err := h.Clone(ctx); return err })
			} else {
				ev.Kind = "cursor"
				ev.Res, _ = guard(func() error { _, err := h.Cursor(ctx); return err })
			}
		}
		sev := st.end()
		ev.Loads, ev.DLoads = distinctLoads(sev)
		ev.H2 = int(h.Height())
		emit(ev)
	}
}
