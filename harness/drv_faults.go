package main

// Driver of the "faults" family (C12): for prepared trees and one operation at
// a time, a dry run counts the fallible calls the operation makes (Persist.Load,
// KeyCompare, Marshal, Unmarshal); then the operation is re-run on an
// identically prepared tree once per call position with that call failing
// (and, for comparison callbacks, pairs of positions), the tree is observed
// through a fault-free view, and the same call is retried. Everything is
// logged for TraceFaults.tla.

import (
	"encoding/json"
	"fmt"
	"hash/crc32"
	"math/rand"

	"github.com/jrhy/mast"
)

type faultCtl struct {
	kind   string // "" | load | cmp | marshal | unmarshal
	at     int
	at2    int
	counts map[string]int
	hit    int
	base   func(a, b interface{}) (int, error)
	st     *recStore
}

func (f *faultCtl) reset() { f.counts = map[string]int{}; f.hit = 0 }
func (f *faultCtl) tick(kind string) bool {
	f.counts[kind]++
	if f.kind == kind && (f.counts[kind] == f.at || (f.at2 > 0 && f.counts[kind] == f.at2)) {
		f.hit++
		return true
	}
	return false
}
func (f *faultCtl) compare(a, b interface{}) (int, error) {
	if f.tick("cmp") {
		return 0, injectedErr(fmt.Sprint("cmp", f.hit))
	}
	return f.base(a, b)
}
func (f *faultCtl) marshal(v interface{}) ([]byte, error) {
	if f.tick("marshal") {
		return nil, injectedErr(fmt.Sprint("marshal", f.hit))
	}
	return json.Marshal(v)
}
func (f *faultCtl) unmarshal(b []byte, v interface{}) error {
	if f.tick("unmarshal") {
		return injectedErr(fmt.Sprint("unmarshal", f.hit))
	}
	return json.Unmarshal(b, v)
}

type faultCall struct {
	Op    string   `json:"op"`
	K     int      `json:"k"`
	V     int      `json:"v"`
	Start string   `json:"start"`
	Moves []string `json:"moves"`
}

type faultObs struct {
	Ents   [][]int `json:"ents"`
	Size   int     `json:"size"`
	Height int     `json:"height"`
	Err    string  `json:"err"`
}

type faultEvent struct {
	Op     string    `json:"op"`
	ID     int       `json:"id"`
	Cfg    *mapCfg   `json:"cfg"`
	Prep   string    `json:"prep"`
	Pre    faultObs  `json:"pre"`
	OEnts  [][]int   `json:"oents"`
	Call   faultCall `json:"call"`
	Kind   string    `json:"kind"`
	At     int       `json:"at"`
	At2    int       `json:"at2"`
	Hit    int       `json:"hit"`
	Res    string    `json:"res"`
	Msg    string    `json:"msg"`
	Phase  string    `json:"phase"` // "shrink" / "grow" when the error comes from that step of Delete / Insert
	Data   [][]int   `json:"data"`
	Post   faultObs  `json:"post"`
	RRes   string    `json:"rres"`
	RData  [][]int   `json:"rdata"`
	RPost  faultObs  `json:"rpost"`
	Counts []int     `json:"counts"` // dry run: loads, compares, marshals, unmarshals
	// after a failed insert / delete: the tree as a MakeRoot of a clone persists it, with the height it records
	POk     bool    `json:"pok"`
	PTerm   []term  `json:"pterm"`
	NData   [][]int `json:"ndata"` // dlinks: what the undisturbed call reports
	PHeight int     `json:"pheight"`
	PSize   int     `json:"psize"`
}

type faultTree struct {
	cfg   mapCfg
	kc    *keyCodec
	vc    *valCodec
	st    *recStore
	fc    *faultCtl
	m     *mast.Mast
	other *mast.Mast
	model map[int]int
	omod  map[int]int
	prep  string
}

// buildFaultTree prepares the same tree for the same seed every time.
func buildFaultTree(id int, seed int64) *faultTree {
	rng := rand.New(rand.NewSource(seed))
	t := &faultTree{model: map[int]int{}}
	t.cfg = mapCfg{ID: id, Src: "random", NV: 2}
	t.cfg.Bf = []uint{2, 2, 3, 4}[rng.Intn(4)]
	t.cfg.NK = 5 + rng.Intn(8)
	t.cfg.KT = []string{"int", "string", "struct", "uint64", "userkey"}[rng.Intn(5)]
	t.cfg.VT = []string{"int", "string", "intslice"}[rng.Intn(3)]
	t.cfg.NF = []string{"bin", "v1"}[rng.Intn(2)]
	t.cfg.Cache = []string{"none", "none", "large"}[rng.Intn(3)]
	t.prep = []string{"persisted", "persisted", "dirty", "dirty", "memory", "emptied", "dirtyleft", "dirtyleft", "dirtyright", "dirtyright"}[rng.Intn(10)]
	var shape []int
	if rng.Intn(4) == 0 {
		// a directed three-level shape: groups of lower-layer keys (with keys of the middle layer on both sides) around ONE key of the
		// top layer, every key present; removing or re-inserting the separator merges or splits at two levels
		for g := 0; g < 2; g++ {
			sz := 2 + rng.Intn(3)
			mid := rng.Intn(sz)
			for i := 0; i < sz; i++ {
				l := 0
				if i == mid || rng.Intn(3) == 0 {
					l = 1
				}
				shape = append(shape, l)
			}
			if g == 0 {
				shape = append(shape, 2)
			}
		}
		t.cfg.KT, t.cfg.NK, t.cfg.Bf = "userkey", len(shape), 2
		t.prep = []string{"persisted", "dirtyleft", "dirtyleft", "dirtyright", "dirtyright", "dirty"}[rng.Intn(6)]
	}
	t.kc = newKeyCodec(t.cfg.KT, t.cfg.NK, t.cfg.Bf, rng, shape, 3)
	t.cfg.Layers = t.kc.layers
	t.vc = newValCodec(t.cfg.VT)
	t.st = newRecStore(fmt.Sprintf("flt-%d", id))
	t.fc = &faultCtl{st: t.st, base: mast.DefaultKeyCompare(json.Marshal)}
	t.fc.reset()
	var cache mast.NodeCache
	if t.cfg.Cache == "large" {
		cache = mast.NewNodeCache(1000)
	}
	rc := &mast.RemoteConfig{KeysLike: t.kc.zero, ValuesLike: t.vc.zero, StoreImmutablePartsWith: t.st, NodeCache: cache,
		KeyCompare: t.fc.compare, Marshal: t.fc.marshal, Unmarshal: t.fc.unmarshal}
	if t.cfg.KT == "struct" {
		// plain struct keys are ordered and layered by their marshaled bytes: Marshal faults reach both
		rc.KeyCompare = nil
	}
	o := nfOf(t.cfg.NF)
	o.BranchFactor = t.cfg.Bf
	m, err := mast.NewRoot(&o).LoadMast(ctx, rc)
	if err != nil {
		panic(err)
	}
	mut := func(m *mast.Mast, model map[int]int, n int, delBias int) {
		for i := 0; i < n; i++ {
			k := 1 + rng.Intn(t.cfg.NK)
			if v, ok := model[k]; ok && rng.Intn(10) < delBias {
				if err := m.Delete(ctx, t.kc.Key(k), t.vc.Val(v)); err != nil {
					panic(err)
				}
				delete(model, k)
			} else {
				v := 1 + rng.Intn(2)
				if err := m.Insert(ctx, t.kc.Key(k), t.vc.Val(v)); err != nil {
					panic(err)
				}
				model[k] = v
			}
		}
	}
	reload := func(m *mast.Mast) *mast.Mast {
		root, err := m.MakeRoot(ctx)
		if err != nil {
			panic(err)
		}
		m2, err := root.LoadMast(ctx, rc)
		if err != nil {
			panic(err)
		}
		return m2
	}
	if shape != nil {
		for k := 1; k <= t.cfg.NK; k++ {
			v := 1 + rng.Intn(2)
			if err := m.Insert(ctx, t.kc.Key(k), t.vc.Val(v)); err != nil {
				panic(err)
			}
			t.model[k] = v
		}
	} else {
		mut(m, t.model, t.cfg.NK+rng.Intn(2*t.cfg.NK), 2)
	}
	switch t.prep {
	case "persisted":
		m = reload(m)
	case "dirty":
		m = reload(m)
		mut(m, t.model, 1+rng.Intn(4), 3)
	case "dirtyleft", "dirtyright":
		// only the path next to the present key of the highest layer is private: removing that key merges a dirty
		// in-memory node with persisted ones
		m = reload(m)
		top := 0
		for k := range t.model {
			if top == 0 || t.kc.layers[k-1] > t.kc.layers[top-1] || (t.kc.layers[k-1] == t.kc.layers[top-1] && k < top) {
				top = k
			}
		}
		nb := top - 1
		if t.prep == "dirtyright" {
			nb = top + 1
		}
		if top != 0 && nb >= 1 && nb <= t.cfg.NK {
			v := 1
			if old, ok := t.model[nb]; ok {
				v = old%2 + 1
			}
			if err := m.Insert(ctx, t.kc.Key(nb), t.vc.Val(v)); err != nil {
				panic(err)
			}
			t.model[nb] = v
		}
	case "emptied":
		m = reload(m)
		for _, p := range pairsOf(t.model) {
			m.Delete(ctx, t.kc.Key(p[0]), t.vc.Val(p[1]))
		}
		t.model = map[int]int{}
	}
	t.m = m
	// a sibling for diffs: persisted, a few changes away
	oc, err := m.Clone(ctx)
	if err != nil {
		panic(err)
	}
	t.omod = map[int]int{}
	for k, v := range t.model {
		t.omod[k] = v
	}
	mut(&oc, t.omod, 1+rng.Intn(3), 4)
	t.other = reload(&oc)
	t.fc.reset()
	return t
}

func (t *faultTree) observe() faultObs {
	o := faultObs{Ents: [][]int{}}
	res, msg := guard(func() error {
		return t.m.Iter(ctx, func(k, v interface{}) error {
			o.Ents = append(o.Ents, []int{t.kc.Rank(k), t.vc.Rank(v)})
			return nil
		})
	})
	if res != "ok" {
		o.Err = res + ": " + msg
		o.Ents = [][]int{}
	}
	o.Size, o.Height = int(t.m.Size()), int(t.m.Height())
	return o
}

// run performs the call; data is what the call returned to its caller.
func (t *faultTree) run(c faultCall) (res, msg string, data [][]int) {
	data = [][]int{}
	res, msg = guard(func() error {
		switch c.Op {
		case "ins":
			return t.m.Insert(ctx, t.kc.Key(c.K), t.vc.Val(c.V))
		case "del":
			return t.m.Delete(ctx, t.kc.Key(c.K), t.vc.Val(c.V))
		case "get":
			var v interface{}
			found, err := t.m.Get(ctx, t.kc.Key(c.K), &v)
			if err != nil {
				return err
			}
			if found {
				data = append(data, []int{1, t.vc.Rank(v)})
			} else {
				data = append(data, []int{0, 0})
			}
			return nil
		case "iter":
			return t.m.Iter(ctx, func(k, v interface{}) error {
				data = append(data, []int{t.kc.Rank(k), t.vc.Rank(v)})
				return nil
			})
		case "seek":
			return t.m.SeekIter(ctx, t.kc.Key(c.K), func(k, v interface{}) error {
				data = append(data, []int{t.kc.Rank(k), t.vc.Rank(v)})
				return nil
			})
		case "clone":
			m2, err := t.m.Clone(ctx)
			if err != nil {
				return err
			}
			// what the clone holds is read with the fault cleared
			k, a, a2, fl := t.fc.kind, t.fc.at, t.fc.at2, t.st.failLoadAt
			t.fc.kind, t.st.failLoadAt = "", 0
			defer func() { t.st.failLoadAt = fl }()
			err = m2.Iter(ctx, func(k, v interface{}) error {
				data = append(data, []int{t.kc.Rank(k), t.vc.Rank(v)})
				return nil
			})
			t.fc.kind, t.fc.at, t.fc.at2 = k, a, a2
			return err
		case "walk", "rwalk":
			// rwalk: a navigation call that returns an error is made again, once, on the same cursor (the injected fault is one-shot)
			again := func(f func() error) error {
				err := f()
				if err != nil && c.Op == "rwalk" {
					err = f()
				}
				return err
			}
			cur, err := t.m.Cursor(ctx)
			if err != nil {
				return err
			}
			switch c.Start {
			case "min":
				err = again(func() error { return cur.Min(ctx) })
			case "max":
				err = again(func() error { return cur.Max(ctx) })
			default:
				err = again(func() error { return cur.Ceil(ctx, t.kc.Key(c.K)) })
			}
			if err != nil {
				return err
			}
			get := func() {
				k, v, ok := cur.Get()
				if ok {
					data = append(data, []int{t.kc.Rank(k), t.vc.Rank(v)})
				} else {
					data = append(data, []int{0, 0})
				}
			}
			get()
			for _, mv := range c.Moves {
				if mv == "F" {
					err = again(func() error { return cur.Forward(ctx) })
				} else {
					err = again(func() error { return cur.Backward(ctx) })
				}
				if err != nil {
					return err
				}
				get()
			}
			return nil
		case "dlinks":
			return t.m.DiffLinks(ctx, t.other, func(removed bool, link interface{}) (bool, error) {
				kind, n := 1, -1
				if removed {
					kind = 2
				}
				if name, ok := link.(string); ok {
					n = int(crc32.ChecksumIEEE([]byte(name)) >> 2)
				}
				data = append(data, []int{kind, n})
				return true, nil
			})
		case "diff":
			return t.m.DiffIter(ctx, t.other, func(added, removed bool, key, av, rv interface{}) (bool, error) {
				rk := func(v interface{}) int {
					if v == nil {
						return 0
					}
					return t.vc.Rank(v)
				}
				data = append(data, []int{kindOf(added, removed), t.kc.Rank(key), rk(rv), rk(av)})
				return true, nil
			})
		}
		return fmt.Errorf("unknown call %s", c.Op)
	})
	if res != "ok" {
		data = [][]int{}
	}
	return
}

func faultCalls(t *faultTree, rng *rand.Rand) []faultCall {
	nk := t.cfg.NK
	var present, absent []int
	for k := 1; k <= nk; k++ {
		if _, ok := t.model[k]; ok {
			present = append(present, k)
		} else {
			absent = append(absent, k)
		}
	}
	pick := func(s []int) int { return s[rng.Intn(len(s))] }
	var cs []faultCall
	if len(absent) > 0 {
		cs = append(cs, faultCall{Op: "ins", K: pick(absent), V: 1}, faultCall{Op: "get", K: pick(absent)}, faultCall{Op: "seek", K: pick(absent)})
		// and the absent key of the highest layer: inserting it splits subtrees several levels deep
		ha := absent[0]
		for _, a := range absent {
			if t.kc.layers[a-1] > t.kc.layers[ha-1] {
				ha = a
			}
		}
		cs = append(cs, faultCall{Op: "ins", K: ha, V: 2})
	}
	if len(present) > 0 {
		k := pick(present)
		cs = append(cs, faultCall{Op: "ins", K: k, V: t.model[k]%2 + 1}, faultCall{Op: "ins", K: k, V: t.model[k]})
		k = pick(present)
		cs = append(cs, faultCall{Op: "del", K: k, V: t.model[k]})
		// and the present key of the highest layer: its removal merges subtrees several levels deep
		hk := present[0]
		for _, p := range present {
			if t.kc.layers[p-1] > t.kc.layers[hk-1] {
				hk = p
			}
		}
		if hk != k {
			cs = append(cs, faultCall{Op: "del", K: hk, V: t.model[hk]})
		}
		cs = append(cs, faultCall{Op: "get", K: pick(present)}, faultCall{Op: "seek", K: pick(present)})
	}
	mv := func(n int, f bool) []string {
		r := []string{}
		for i := 0; i < n; i++ {
			if f {
				r = append(r, "F")
			} else {
				r = append(r, "B")
			}
		}
		return r
	}
	cs = append(cs, faultCall{Op: "iter"}, faultCall{Op: "clone"}, faultCall{Op: "diff"}, faultCall{Op: "dlinks"},
		faultCall{Op: "walk", Start: "min", Moves: mv(len(present)+1, true)},
		faultCall{Op: "walk", Start: "max", Moves: mv(len(present)+1, false)},
		faultCall{Op: "walk", Start: "ceil", K: 1 + rng.Intn(nk), Moves: []string{"F", "B", "B", "F"}},
		faultCall{Op: "rwalk", Start: "min", Moves: mv(len(present)+1, true)},
		faultCall{Op: "rwalk", Start: "max", Moves: mv(len(present)+1, false)},
		faultCall{Op: "rwalk", Start: "ceil", K: 1 + rng.Intn(nk), Moves: []string{"F", "F", "B", "B", "B", "F"}})
	for i := range cs {
		if cs[i].Moves == nil {
			cs[i].Moves = []string{}
		}
	}
	return cs
}

func faultsFamily(seed int64, n int, out *json.Encoder, perKind int) {
	for i := 0; i < n; i++ {
		tseed := seed*999983 + int64(i)
		t0 := buildFaultTree(i+1, tseed)
		rng := rand.New(rand.NewSource(tseed ^ 0x5bd1e995))
		calls := faultCalls(t0, rng)
		for _, c := range calls {
			// dry run on its own copy
			td := buildFaultTree(i+1, tseed)
			td.fc.reset()
			td.st.begin()
			dres, _, ddata := td.run(c)
			sev := td.st.end()
			loads, _ := distinctLoads(sev)
			counts := []int{loads, td.fc.counts["cmp"], td.fc.counts["marshal"], td.fc.counts["unmarshal"]}
			_ = dres
			type plan struct {
				kind    string
				at, at2 int
			}
			var plans []plan
			for ki, kind := range []string{"load", "cmp", "marshal", "unmarshal"} {
				cnt := counts[ki]
				idx := []int{}
				for j := 1; j <= cnt; j++ {
					idx = append(idx, j)
				}
				if len(idx) > perKind {
					rng.Shuffle(len(idx), func(a, b int) { idx[a], idx[b] = idx[b], idx[a] })
					idx = idx[:perKind]
				}
				for _, j := range idx {
					plans = append(plans, plan{kind, j, 0})
				}
				if kind == "cmp" && cnt >= 2 {
					for q := 0; q < 3; q++ {
						a := 1 + rng.Intn(cnt-1)
						plans = append(plans, plan{kind, a, a + 1 + rng.Intn(cnt-a)})
					}
				}
			}
			for _, p := range plans {
				t := buildFaultTree(i+1, tseed)
				ev := &faultEvent{Op: "fault", ID: i + 1, Cfg: &t.cfg, Prep: t.prep, Call: c, Kind: p.kind, At: p.at, At2: p.at2, Counts: counts,
					OEnts: pairsOf(t.omod), NData: [][]int{}}
				if c.Op == "dlinks" {
					ev.NData = ddata // the undisturbed run of the node diff (judged for itself by C07) is the normal outcome here
				}
				ev.Pre = t.observe()
				t.fc.reset()
				t.fc.kind, t.fc.at, t.fc.at2 = p.kind, p.at, p.at2
				if p.kind == "load" {
					t.st.begin()
					t.st.failLoadAt = p.at
				}
				ev.Res, ev.Msg, ev.Data = t.run(c)
				if p.kind == "load" {
					lev := t.st.end()
					for _, e := range lev {
						if e.Kind == "load" && e.Err {
							ev.Hit++
						}
					}
				} else {
					ev.Hit = t.fc.hit
				}
				t.fc.kind = ""
				if len(ev.Msg) >= 7 && ev.Msg[:7] == "shrink:" {
					ev.Phase = "shrink"
				} else if (len(ev.Msg) >= 5 && ev.Msg[:5] == "grow:") || (len(ev.Msg) >= 8 && ev.Msg[:8] == "canGrow:") {
					ev.Phase = "grow"
				}
				ev.Post = t.observe()
				ev.PTerm = []term{}
				if (ev.Res == "err" || (ev.Res == "ok" && ev.Hit > 0)) && (c.Op == "ins" || c.Op == "del") {
					// is the recorded height still the height of the structure? persist a clone and decode it
					guard(func() error {
						cl, err := t.m.Clone(ctx)
						if err != nil {
							return err
						}
						root, err := cl.MakeRoot(ctx)
						if err != nil {
							return err
						}
						p := &projector{nf: t.cfg.NF, kc: t.kc, vc: t.vc, st: t.st}
						ev.PTerm = p.kid(linkOf(root))
						ev.PHeight = int(root.Height)
						ev.PSize = int(root.Size)
						ev.POk = len(p.bad) == 0
						return nil
					})
				}
				// the same call again, the fault cleared
				ev.RRes, _, ev.RData = t.run(c)
				ev.RPost = t.observe()
				out.Encode(ev)
			}
		}
	}
}
