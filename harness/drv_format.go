package main

// Driver of the "format" family (C14, C08): what the code writes and returns
// for generated inputs, in the vocabulary of Format.tla: node bytes with the
// abstract node decoded from them by the harness's own decoders, DefaultLayer
// and DefaultKeyCompare results for keys of every built-in type, the defaults
// of a new tree.

import (
	"encoding/base64"
	"encoding/binary"
	"encoding/json"
	"fmt"
	"math/rand"
	"strconv"

	"github.com/jrhy/mast"
)

type fmtEvent struct {
	Op     string        `json:"op"`
	NF     string        `json:"nf"`
	KT     string        `json:"kt"` // int | string | bytes (the JSON rendering class)
	GoT    string        `json:"got"`
	VT     string        `json:"vt"`
	BF     int           `json:"bf"`
	Keys   []interface{} `json:"keys"`
	Vals   []interface{} `json:"vals"`
	Links  [][]int       `json:"links"`
	Bytes  []int         `json:"bytes"`
	HashOk bool          `json:"hashok"`
	Name   string        `json:"name"`
	// layer / order
	Key   interface{} `json:"key"`
	Mag   []int       `json:"mag"`
	Layer int         `json:"layer"`
	A     interface{} `json:"a"`
	B     interface{} `json:"b"`
	Cmp   int         `json:"cmp"`
	// order of integers beyond 32 bits: sign (-1, 0, 1) and 8-byte big-endian magnitude of each side
	Wide  bool   `json:"wide"`
	ASign int    `json:"asign"`
	BSign int    `json:"bsign"`
	AMag  []int  `json:"amag"`
	BMag  []int  `json:"bmag"`
	Res   string `json:"res"`
	// defaults
	Legacy  string `json:"legacy"`
	Size    int    `json:"size"`
	Height  int    `json:"height"`
	HasLink bool   `json:"haslink"`
}

func toInts(b []byte) []int {
	r := make([]int, len(b))
	for i, x := range b {
		r[i] = int(x)
	}
	return r
}

var goTypes = []string{"int", "int64", "uint", "uint64", "string", "bytes"}

func classOf(goT string) string {
	switch goT {
	case "string":
		return "string"
	case "bytes":
		return "bytes"
	}
	return "int"
}

const alnum = "ABCDEFGHIJKLMNOPQRSTUVWXYZabcdefghijklmnopqrstuvwxyz0123456789"

func randAlnum(rng *rand.Rand, n int) string {
	b := make([]byte, n)
	for i := range b {
		b[i] = alnum[rng.Intn(len(alnum))]
		if rng.Intn(12) == 0 {
			b[i] = "<>&-_ ."[rng.Intn(7)] // characters the JSON encoder renders specially, and a few it does not
		}
	}
	return string(b)
}

// plainAlnum: n characters none of which the JSON encoder escapes, so that the encoded length is n+2
func plainAlnum(rng *rand.Rand, n int) string {
	b := make([]byte, n)
	for i := range b {
		b[i] = alnum[rng.Intn(len(alnum))]
	}
	return string(b)
}

// genKey returns a Go key of the type and its abstract image (int, or byte values).
func genKey(goT string, rng *rand.Rand, bf uint) (interface{}, interface{}) {
	iv := func() int64 {
		switch rng.Intn(4) {
		case 0:
			return int64(rng.Intn(100))
		case 1:
			v := int64(1 + rng.Intn(50))
			for i := rng.Intn(5); i > 0 && v*int64(bf) < 1<<30; i-- {
				v *= int64(bf)
			}
			return v
		default:
			return int64(rng.Intn(1 << 30))
		}
	}
	switch goT {
	case "int":
		v := iv()
		if rng.Intn(3) == 0 {
			v = -v
		}
		return int(v), v
	case "int64":
		v := iv()
		if rng.Intn(3) == 0 {
			v = -v
		}
		return v, v
	case "uint":
		v := iv()
		return uint(v), v
	case "uint64":
		v := iv()
		return uint64(v), v
	case "string":
		s := randAlnum(rng, rng.Intn(13)) // the empty key too
		if rng.Intn(10) == 0 {
			s = plainAlnum(rng, 124+rng.Intn(8)) // encoded bodies of 126..133 bytes: either side of the one-byte length field's limit
		}
		return s, toInts([]byte(s))
	default:
		b := make([]byte, rng.Intn(11))
		rng.Read(b)
		return b, toInts(b)
	}
}

func genVal(vt string, rng *rand.Rand) interface{} {
	switch vt {
	case "nil":
		return nil // a tree used as a set
	case "int":
		v := rng.Intn(1<<20) - 1000
		return v
	case "string":
		if rng.Intn(8) == 0 {
			return plainAlnum(rng, 124+rng.Intn(8))
		}
		return randAlnum(rng, rng.Intn(8))
	default:
		b := make([]byte, rng.Intn(7))
		rng.Read(b)
		return b
	}
}

func zeroOf(t string) interface{} {
	switch t {
	case "int":
		return 0
	case "int64":
		return int64(0)
	case "uint":
		return uint(0)
	case "uint64":
		return uint64(0)
	case "string":
		return ""
	}
	return []byte{}
}

// abstractOf converts the marshaled JSON of a scalar to its abstract image.
func abstractOf(class string, raw []byte) (interface{}, error) {
	switch class {
	case "nil":
		if string(raw) != "null" {
			return 1, fmt.Errorf("not null")
		}
		return 0, nil
	case "int":
		v, err := strconv.ParseInt(string(raw), 10, 64)
		return v, err
	case "string":
		var s string
		if err := json.Unmarshal(raw, &s); err != nil {
			return nil, err
		}
		return toInts([]byte(s)), nil
	default:
		var s string
		if err := json.Unmarshal(raw, &s); err != nil {
			return nil, err
		}
		b, err := base64.StdEncoding.DecodeString(s)
		return toInts(b), err
	}
}

func formatFamily(seed int64, n int, out *json.Encoder) {
	rng := rand.New(rand.NewSource(seed))
	// ---- defaults
	for i := 0; i < 2; i++ {
		var r *mast.Root
		if i == 0 {
			r = mast.NewRoot(nil)
		} else {
			r = mast.NewRoot(&mast.CreateRemoteOptions{})
		}
		ev := fmtEvent{Op: "defaults", BF: int(r.BranchFactor), NF: r.NodeFormat, Size: int(r.Size), Height: int(r.Height), HasLink: r.Link != nil}
		// a root record without NodeFormat (written by an early release) must load as v1marshaler
		st := newRecStore("legacy")
		legacy := mast.Root{BranchFactor: 16}
		m, err := legacy.LoadMast(ctx, &mast.RemoteConfig{KeysLike: 0, ValuesLike: 0, StoreImmutablePartsWith: st})
		if err == nil {
			m.Insert(ctx, 1, 1)
			if r2, err := m.MakeRoot(ctx); err == nil {
				ev.Legacy = r2.NodeFormat
			}
		}
		emitFmt(out, ev)
	}
	// ---- nodes
	for c := 0; c < n; c++ {
		goT := goTypes[c%len(goTypes)]
		vt := []string{"int", "string", "bytes"}[rng.Intn(3)]
		if c%7 == 3 {
			vt = "nil"
		}
		nf := []string{"bin", "v1"}[(c/len(goTypes))%2]
		bf := []uint{2, 3, 4, 16}[rng.Intn(4)]
		st := newRecStore("fmt")
		st.keepAll = true
		o := nfOf(nf)
		o.BranchFactor = bf
		fcfg := &mast.RemoteConfig{KeysLike: zeroOf(goT), ValuesLike: zeroOf(vt), StoreImmutablePartsWith: st}
		if vt == "nil" {
			fcfg.ValuesLike, fcfg.UnmarshalerUsesRegisteredTypes = nil, true
		}
		m, err := mast.NewRoot(&o).LoadMast(ctx, fcfg)
		if err != nil {
			panic(err)
		}
		for i := 0; i < 8+rng.Intn(40); i++ {
			k, _ := genKey(goT, rng, bf)
			if err := m.Insert(ctx, k, genVal(vt, rng)); err != nil {
				panic(err)
			}
		}
		if _, err := m.MakeRoot(ctx); err != nil {
			panic(err)
		}
		for _, s := range st.allStores {
			ev := fmtEvent{Op: "node", NF: nf, KT: classOf(goT), GoT: goT, VT: vt, BF: int(bf), Bytes: toInts(s.Bytes), Name: s.Name, HashOk: nodeName(s.Bytes) == s.Name,
				Keys: []interface{}{}, Vals: []interface{}{}, Links: [][]int{}}
			rn, err := decodeNode(nf, s.Bytes)
			if err != nil {
				ev.Res = "undecodable: " + err.Error()
				ev.HashOk = false
				emitFmt(out, ev)
				continue
			}
			for i := range rn.Keys {
				k, _ := abstractOf(classOf(goT), rn.Keys[i])
				ev.Keys = append(ev.Keys, k)
			}
			for i := range rn.Vals {
				v, _ := abstractOf(vt, rn.Vals[i])
				ev.Vals = append(ev.Vals, v)
			}
			for _, l := range rn.Links {
				ev.Links = append(ev.Links, toInts([]byte(l)))
			}
			emitFmt(out, ev)
		}
	}
	// ---- layers and order
	layer := mast.DefaultLayer(json.Marshal)
	cmp := mast.DefaultKeyCompare(json.Marshal)
	for c := 0; c < n*6; c++ {
		goT := goTypes[c%len(goTypes)]
		bf := []uint{2, 3, 4, 10, 16, 256}[rng.Intn(6)]
		k, abs := genKey(goT, rng, bf)
		if classOf(goT) == "int" && rng.Intn(2) == 0 {
			// magnitudes beyond TLC's 32-bit integers: judged on the 8-byte magnitude alone
			v := int64(1 + rng.Intn(1000))
			for i := rng.Intn(9); i > 0 && v < (1<<62)/int64(bf); i-- {
				v *= int64(bf)
			}
			if rng.Intn(2) == 0 {
				v += int64(rng.Intn(1 << 30))
			}
			switch goT {
			case "int":
				k = int(v)
			case "int64":
				k = -v
			case "uint":
				k = uint(v)
			case "uint64":
				k = uint64(v)
			}
			abs = v
		}
		ev := fmtEvent{Op: "layer", KT: classOf(goT), GoT: goT, BF: int(bf), Key: abs}
		l, err := layer(k, bf)
		if err != nil {
			ev.Res = err.Error()
		}
		ev.Layer = int(l)
		if classOf(goT) == "int" {
			v := abs.(int64)
			if v < 0 {
				v = -v
			}
			var mag [8]byte
			binary.BigEndian.PutUint64(mag[:], uint64(v))
			ev.Mag = toInts(mag[:])
			ev.Key = 0
		} else {
			ev.Mag = []int{}
		}
		emitFmt(out, ev)
		k1, abs1 := genKey(goT, rng, bf)
		k2, abs2 := genKey(goT, rng, bf)
		if rng.Intn(5) == 0 {
			k2, abs2 = k1, abs1
		}
		oe := fmtEvent{Op: "order", KT: classOf(goT), GoT: goT, A: abs1, B: abs2, Res: "ok"}
		r, err := cmp(k1, k2)
		if err != nil {
			oe.Res = err.Error()
		}
		oe.Cmp = r
		emitFmt(out, oe)
		// keys of the other integer widths (and of any other type without an order of its own) are ordered by their encoded form
		{
			r2 := rand.New(rand.NewSource(seed*1000003 + int64(c)*7919 + int64(bf))) // (a generator of its own: the other events stay as they are)
			mk := func() (interface{}, string) {
				v := r2.Intn(400) - 150
				switch r2.Intn(6) {
				case 0:
					return int32(v * 1000), "int32"
				case 1:
					return int16(v), "int16"
				case 2:
					return int8(v % 128), "int8"
				case 3:
					return uint8(v & 0xff), "uint8"
				case 4:
					return uint16(v & 0xffff), "uint16"
				}
				return uint32(v&0xffff) * 70000, "uint32"
			}
			a, ta := mk()
			b, tb := mk()
			for tb != ta {
				b, tb = mk()
			}
			ja, _ := json.Marshal(a)
			jb, _ := json.Marshal(b)
			me := fmtEvent{Op: "order", KT: "marshaled", GoT: ta, A: toInts(ja), B: toInts(jb), Res: "ok"}
			rr, err := cmp(a, b)
			if err != nil {
				me.Res = err.Error()
			}
			me.Cmp = rr
			emitFmt(out, me)
		}
		if classOf(goT) == "int" {
			// the whole range of the type
			wide := func() (interface{}, int, []int) {
				u := rng.Uint64() >> uint(rng.Intn(3)*20)
				if rng.Intn(4) == 0 {
					u |= 1 << 63
				}
				neg := false
				var k interface{}
				switch goT {
				case "int":
					k, neg = int(int64(u)), int64(u) < 0
				case "int64":
					k, neg = int64(u), int64(u) < 0
				case "uint":
					k = uint(u)
				default:
					k = u
				}
				mag := u
				sign := 1
				if neg {
					mag = uint64(-int64(u))
					sign = -1
				}
				if mag == 0 {
					sign = 0
				}
				var mb [8]byte
				binary.BigEndian.PutUint64(mb[:], mag)
				return k, sign, toInts(mb[:])
			}
			ka, sa, ma := wide()
			kb, sb, mb := wide()
			we := fmtEvent{Op: "order", KT: "int", GoT: goT, Res: "ok", Wide: true, ASign: sa, BSign: sb, AMag: ma, BMag: mb}
			r, err := cmp(ka, kb)
			if err != nil {
				we.Res = err.Error()
			}
			we.Cmp = r
			emitFmt(out, we)
		}
	}
}

func emitFmt(out *json.Encoder, ev fmtEvent) {
	if ev.Keys == nil {
		ev.Keys = []interface{}{}
	}
	if ev.Vals == nil {
		ev.Vals = []interface{}{}
	}
	if ev.Links == nil {
		ev.Links = [][]int{}
	}
	if ev.Bytes == nil {
		ev.Bytes = []int{}
	}
	if ev.Mag == nil {
		ev.Mag = []int{}
	}
	if ev.AMag == nil {
		ev.AMag = []int{}
	}
	if ev.BMag == nil {
		ev.BMag = []int{}
	}
	if ev.Key == nil {
		ev.Key = 0
	}
	if ev.A == nil {
		ev.A = 0
	}
	if ev.B == nil {
		ev.B = 0
	}
	out.Encode(ev)
}

var _ = fmt.Sprint
