package main

// Driver of the "store" family (C18, C17): one contract driver over the three
// Persist backends (in-memory; file in a scratch directory; S3 through a fake
// S3Interface that records bucket/key and injects errors), and the crash /
// I/O-error enumeration of the file backend: the real file.Persist.Store runs
// in a child process whose RLIMIT_FSIZE cuts the write at an exact byte.

import (
	"bytes"
	"context"
	"encoding/json"
	"errors"
	"fmt"
	"io"
	"math/rand"
	"os"
	"os/exec"
	"os/signal"
	"path/filepath"
	"runtime"
	"sort"
	"strings"
	"sync"
	"sync/atomic"
	"syscall"
	"time"
	"unsafe"

	"github.com/aws/aws-sdk-go/aws"
	"github.com/aws/aws-sdk-go/aws/awserr"
	"github.com/aws/aws-sdk-go/aws/request"
	"github.com/aws/aws-sdk-go/service/s3"
	"github.com/aws/aws-sdk-go/service/s3/s3iface"
	"github.com/jrhy/mast"
	filep "github.com/jrhy/mast/persist/file"
	s3p "github.com/jrhy/mast/persist/s3"
)

type storeEv struct {
	Op      string `json:"op"` // sbegin | store | load | cstore (concurrent same-name writers)
	ID      int    `json:"id"`
	Backend string `json:"backend"`
	Name    int    `json:"name"` // index of the name in this run
	Len     int    `json:"len"`
	Dig     string `json:"dig"` // digest of the bytes given to Store / returned by Load
	Res     string `json:"res"` // ok | err | panic
	Inject  bool   `json:"inject"`
	// the injected error is of the transient class (HTTP 500 after the request body was consumed): a backend may return it or
	// retry; if it reports success the bytes must be there
	Transient bool `json:"transient"`
	// recheck / cload: earlier results looked at again
	Changed  int `json:"changed"`
	Writers  int `json:"writers"`
	Errs     int `json:"errs"`
	Oks      int `json:"oks"`      // hstore: writers that reported success
	Injected int `json:"injected"` // hstore: uploads that were made to fail
	// s3: every (bucket, key) the call asked the client for, and the intended one
	Asked  []string `json:"asked"`
	Intend string   `json:"intend"`
	Msg    string   `json:"msg"`
}

type fakeS3 struct {
	// any further method of the SDK's client interface that the backend may come to use is present (and panics if called, which is
	// reported as such): the harness keeps compiling when the backend's client interface grows
	s3iface.S3API
	mu            sync.Mutex
	obj           map[string][]byte
	asked         []string
	failIn        int           // fail the next n calls
	failTransient int           // fail the next n PUTs with a 500 after reading the body
	gets          int           // GETs served (selects how the body is handed out)
	hold          chan struct{} // when set, PUTs wait here after their body has been read
	arrived       int32         // PUTs that have reached the hold
	failHeld      int32         // the first n PUTs to have arrived fail once released
}

func (f *fakeS3) HeadObjectWithContext(ctx aws.Context, in *s3.HeadObjectInput, _ ...request.Option) (*s3.HeadObjectOutput, error) {
	f.mu.Lock()
	defer f.mu.Unlock()
	f.asked = append(f.asked, f.key(in.Bucket, in.Key))
	b, ok := f.obj[f.key(in.Bucket, in.Key)]
	if !ok {
		return nil, awserr.NewRequestFailure(awserr.New("NotFound", "Not Found", nil), 404, "harness")
	}
	return &s3.HeadObjectOutput{ContentLength: aws.Int64(int64(len(b)))}, nil
}

func (f *fakeS3) key(b, k *string) string { return aws.StringValue(b) + "|" + aws.StringValue(k) }
func (f *fakeS3) DeleteObjectWithContext(ctx aws.Context, in *s3.DeleteObjectInput, _ ...request.Option) (*s3.DeleteObjectOutput, error) {
	f.mu.Lock()
	defer f.mu.Unlock()
	f.asked = append(f.asked, "DEL "+f.key(in.Bucket, in.Key))
	delete(f.obj, f.key(in.Bucket, in.Key))
	return &s3.DeleteObjectOutput{}, nil
}
func (f *fakeS3) GetObjectWithContext(ctx aws.Context, in *s3.GetObjectInput, _ ...request.Option) (*s3.GetObjectOutput, error) {
	f.mu.Lock()
	defer f.mu.Unlock()
	f.asked = append(f.asked, f.key(in.Bucket, in.Key))
	if f.failIn > 0 {
		f.failIn--
		return nil, injectedErr(f.key(in.Bucket, in.Key))
	}
	b, ok := f.obj[f.key(in.Bucket, in.Key)]
	if !ok {
		return nil, errors.New("NoSuchKey")
	}
	// like the service, the fake states the length and hands the body out the way a network connection does: in pieces
	// (mode 1: at most 512 bytes a Read; mode 2: one byte a Read; mode 3: the last piece together with io.EOF), mode 0: at once
	f.gets++
	var body io.Reader = bytes.NewReader(append([]byte{}, b...))
	switch f.gets % 4 {
	case 1:
		body = &pieceReader{r: body, max: 512}
	case 2:
		body = &pieceReader{r: body, max: 1}
	case 3:
		body = &pieceReader{r: body, max: 3145, eofWithData: true}
	}
	return &s3.GetObjectOutput{Body: io.NopCloser(body), ContentLength: aws.Int64(int64(len(b)))}, nil
}

// pieceReader returns at most max bytes per Read; with eofWithData the final bytes come together with io.EOF (both are
// behaviours the io.Reader contract allows and network bodies show)
type pieceReader struct {
	r           io.Reader
	max         int
	eofWithData bool
	pending     []byte
}

func (p *pieceReader) Read(b []byte) (int, error) {
	if len(b) > p.max {
		b = b[:p.max]
	}
	if !p.eofWithData {
		return p.r.Read(b)
	}
	// look one piece ahead so that the last piece can be returned with io.EOF
	if p.pending == nil {
		p.pending, _ = io.ReadAll(p.r)
	}
	n := copy(b, p.pending)
	p.pending = p.pending[n:]
	if len(p.pending) == 0 {
		return n, io.EOF
	}
	return n, nil
}
func (f *fakeS3) PutObjectWithContext(ctx aws.Context, in *s3.PutObjectInput, _ ...request.Option) (*s3.PutObjectOutput, error) {
	b, err := io.ReadAll(in.Body)
	f.mu.Lock()
	hold := f.hold
	f.mu.Unlock()
	if hold != nil {
		idx := atomic.AddInt32(&f.arrived, 1)
		<-hold
		if idx <= atomic.LoadInt32(&f.failHeld) {
			f.mu.Lock()
			f.asked = append(f.asked, f.key(in.Bucket, in.Key))
			f.mu.Unlock()
			return nil, injectedErr(f.key(in.Bucket, in.Key))
		}
	}
	f.mu.Lock()
	defer f.mu.Unlock()
	f.asked = append(f.asked, f.key(in.Bucket, in.Key))
	if f.failIn > 0 {
		f.failIn--
		return nil, injectedErr(f.key(in.Bucket, in.Key))
	}
	if f.failTransient > 0 {
		f.failTransient--
		return nil, awserr.NewRequestFailure(awserr.New("InternalError", "We encountered an internal error. Please try again.", nil), 500, "harness")
	}
	if err != nil {
		return nil, err
	}
	f.obj[f.key(in.Bucket, in.Key)] = b
	return &s3.PutObjectOutput{}, nil
}
func (f *fakeS3) take() []string {
	f.mu.Lock()
	defer f.mu.Unlock()
	a := f.asked
	f.asked = nil
	if a == nil {
		a = []string{}
	}
	return a
}

const nameAlphabet = "ABCDEFGHIJKLMNOPQRSTUVWXYZabcdefghijklmnopqrstuvwxyz0123456789-_"

func randName(rng *rand.Rand) string {
	b := make([]byte, 43)
	for i := range b {
		b[i] = nameAlphabet[rng.Intn(len(nameAlphabet))]
	}
	switch rng.Intn(6) {
	case 0:
		b[0] = '-'
	case 1:
		b[0] = '_'
	}
	return string(b)
}

func randPayload(rng *rand.Rand) []byte {
	switch rng.Intn(6) {
	case 0:
		return []byte{}
	case 1:
		// large: one mebibyte exactly, a little more, and several
		b := make([]byte, []int{1 << 20, 1<<20 + 17, 3<<20 + 5}[rng.Intn(3)])
		rng.Read(b)
		return b
	case 2:
		return []byte{0, 255, 0, 10, 13, 0}
	default:
		b := make([]byte, 1+rng.Intn(300))
		rng.Read(b)
		return b
	}
}

func digestOf(b []byte) string { return nodeName(b) }

func storeContractRun(id int, seed int64, scratch string, out *json.Encoder) {
	rng := rand.New(rand.NewSource(seed))
	backend := []string{"mem", "file", "s3"}[id%3]
	var p mast.Persist
	var fs *fakeS3
	bucket, prefix := fmt.Sprintf("bucket%d", rng.Intn(3)), []string{"", "node/", "a/b/", "x"}[rng.Intn(4)]
	var dir string
	switch backend {
	case "mem":
		p = mast.NewInMemoryStore()
	case "file":
		dir = filepath.Join(scratch, fmt.Sprintf("store-%d", id))
		os.MkdirAll(dir, 0755)
		p = filep.NewPersistForPath(dir)
	case "s3":
		fs = &fakeS3{obj: map[string][]byte{}}
		pp := s3p.NewPersist(fs, "http://endpoint", bucket, prefix)
		p = &pp
	}
	out.Encode(storeEv{Op: "sbegin", ID: id, Backend: backend, Asked: []string{}})
	names := []string{}
	payloads := [][]byte{}
	for i := 0; i < 4; i++ {
		names = append(names, randName(rng))
		payloads = append(payloads, randPayload(rng))
	}
	emit := func(e storeEv) {
		e.ID, e.Backend = id, backend
		if fs != nil {
			e.Asked = fs.take()
			if e.Name >= 0 {
				e.Intend = bucket + "|" + prefix + names[e.Name]
			}
		}
		if e.Asked == nil {
			e.Asked = []string{}
		}
		out.Encode(e)
	}
	doStore := func(i int, inject bool) {
		transient := false
		if inject {
			switch backend {
			case "s3":
				if rng.Intn(2) == 0 {
					fs.failTransient, transient = 1+rng.Intn(2), true
				} else {
					fs.failIn = 1
				}
			case "file":
				// a base path that does not exist: the backend error must surface
			default:
				inject = false
			}
		}
		e := storeEv{Op: "store", Name: i, Len: len(payloads[i]), Dig: digestOf(payloads[i]), Inject: inject, Transient: transient}
		target := p
		away := false
		if inject && backend == "file" {
			if x := rng.Intn(3); x == 0 {
				target = filep.NewPersistForPath(filepath.Join(dir, "does-not-exist"))
			} else if x == 1 {
				// a base path that is not a directory: looking the name up fails with an error other than "does not exist"
				plain := filepath.Join(dir, ".plain-file")
				os.WriteFile(plain, []byte("x"), 0644)
				target = filep.NewPersistForPath(plain)
			} else if os.Rename(dir, dir+".away") == nil {
				// the same store object, its directory gone for the moment (the temporary file cannot be created)
				away = true
			} else {
				target = filep.NewPersistForPath(filepath.Join(dir, "does-not-exist"))
			}
		}
		e.Res, e.Msg = guard(func() error { return target.Store(ctx, names[i], payloads[i]) })
		if away {
			os.Rename(dir+".away", dir)
		}
		if fs != nil {
			fs.failTransient = 0
		}
		emit(e)
	}
	// what earlier Loads returned is the caller's: looked at again after later calls
	type heldT struct {
		b   []byte
		dig string
	}
	var held []heldT
	recheck := func() {
		ch := 0
		for _, h := range held {
			if digestOf(h.b) != h.dig {
				ch++
			}
		}
		emit(storeEv{Op: "recheck", Name: -1, Len: len(held), Changed: ch, Res: "ok"})
	}
	doLoad := func(i int, inject bool) {
		if inject {
			if backend == "s3" {
				fs.failIn = 1
			} else {
				inject = false
			}
		}
		e := storeEv{Op: "load", Name: i, Inject: inject}
		var b []byte
		e.Res, e.Msg = guard(func() error {
			var err error
			b, err = p.Load(ctx, names[i])
			return err
		})
		if e.Res == "ok" {
			e.Len, e.Dig = len(b), digestOf(b)
			held = append(held, heldT{b, e.Dig})
		}
		emit(e)
	}
	// concurrent readers of different names: each compares what it got with what was stored, a little later
	doCLoad := func() {
		var wg sync.WaitGroup
		var mu sync.Mutex
		bad, n := 0, 0
		for j := 0; j < 6; j++ {
			wg.Add(1)
			go func(j int) {
				defer wg.Done()
				for k := 0; k < 20; k++ {
					i := (j + k) % len(names)
					b, err := p.Load(ctx, names[i])
					if err != nil {
						continue
					}
					d1 := digestOf(b)
					runtime.Gosched()
					d2 := digestOf(b)
					mu.Lock()
					n++
					if d1 != d2 {
						bad++
					}
					mu.Unlock()
				}
			}(j)
		}
		wg.Wait()
		if fs != nil {
			fs.take()
		}
		emit(storeEv{Op: "recheck", Name: -1, Len: n, Changed: bad, Res: "ok"})
	}
	for s := 0; s < 14; s++ {
		i := rng.Intn(len(names))
		switch x := rng.Intn(11); {
		case x < 4:
			doStore(i, rng.Intn(6) == 0)
		case x < 8:
			doLoad(i, rng.Intn(8) == 0)
			recheck()
		case x == 10:
			doCLoad()
		case fs != nil && rng.Intn(2) == 0:
			// the service is slow: one writer's upload of a name is still in flight when others store the same name and bytes;
			// the first upload then fails. Who reports success has stored the bytes; only a writer whose own upload failed may fail.
			w := 2 + rng.Intn(3)
			fs.mu.Lock()
			fs.hold = make(chan struct{})
			fs.mu.Unlock()
			atomic.StoreInt32(&fs.arrived, 0)
			atomic.StoreInt32(&fs.failHeld, 1)
			var wg sync.WaitGroup
			var oks, errs int32
			start := func() {
				wg.Add(1)
				go func() {
					defer wg.Done()
					res, _ := guard(func() error { return p.Store(ctx, names[i], payloads[i]) })
					if res == "ok" {
						atomic.AddInt32(&oks, 1)
					} else {
						atomic.AddInt32(&errs, 1)
					}
				}()
			}
			waitArrived := func(n int32, d time.Duration) {
				for t0 := time.Now(); atomic.LoadInt32(&fs.arrived) < n && time.Since(t0) < d; {
					time.Sleep(time.Millisecond)
				}
			}
			start()
			waitArrived(1, 2*time.Second)
			for j := 1; j < w; j++ {
				start()
			}
			waitArrived(int32(w), 150*time.Millisecond)
			fs.mu.Lock()
			close(fs.hold)
			fs.hold = nil
			fs.mu.Unlock()
			wg.Wait()
			atomic.StoreInt32(&fs.failHeld, 0)
			fs.take()
			emit(storeEv{Op: "hstore", Name: i, Len: len(payloads[i]), Dig: digestOf(payloads[i]), Writers: w, Errs: int(errs), Oks: int(oks), Injected: 1, Res: "ok"})
			doLoad(i, false)
		default:
			// concurrent writers of the same name and bytes, then a load
			w := 2 + rng.Intn(6)
			var wg sync.WaitGroup
			errs := 0
			var mu sync.Mutex
			for j := 0; j < w; j++ {
				wg.Add(1)
				go func() {
					defer wg.Done()
					res, _ := guard(func() error { return p.Store(ctx, names[i], payloads[i]) })
					if res != "ok" {
						mu.Lock()
						errs++
						mu.Unlock()
					}
				}()
			}
			wg.Wait()
			emit(storeEv{Op: "cstore", Name: i, Len: len(payloads[i]), Dig: digestOf(payloads[i]), Writers: w, Errs: errs, Res: "ok"})
			doLoad(i, false)
		}
	}
	recheck()
	if dir != "" {
		os.RemoveAll(dir)
	}
}

// ---------------- file store: crash / I/O error at every byte offset ----------------

type fileEv struct {
	Op      string `json:"op"`
	ID      int    `json:"id"`
	Len     int    `json:"len"`
	Limit   int    `json:"limit"`
	Mode    string `json:"mode"`    // crash | ioerr
	Child   string `json:"child"`   // killed | err | ok
	Load1   int    `json:"load1"`   // -1 missing, else number of bytes the load returned
	Same1   bool   `json:"same1"`   // load1 returned exactly the node's bytes
	Restore string `json:"restore"` // result of storing the same node again (in this process)
	Load2   int    `json:"load2"`
	Same2   bool   `json:"same2"`
	Extra   int    `json:"extra"` // other files left in the directory
	Msg     string `json:"msg"`
}

// fileChild is the child process: the real file.Persist.Store under RLIMIT_FSIZE.
func fileChild(dir, name string, size int, seed int64, limit int, mode string) {
	payload := filePayload(size, seed)
	if mode == "ioerr" || mode == "treeioerr" || mode == "treeioerr-cache" {
		signal.Ignore(syscall.SIGXFSZ)
	} else if mode == "transient" {
		// (handled below: the signal lifts the limit)
	} else {
		// the Go runtime turns SIGXFSZ into a plain EFBIG error; a crash needs the kernel's default action
		// (terminate inside the write), so the disposition is reset to SIG_DFL behind the runtime's back
		type sigactionT struct {
			handler  uintptr
			flags    uint64
			restorer uintptr
			mask     uint64
		}
		sa := sigactionT{}
		if _, _, e := syscall.RawSyscall6(syscall.SYS_RT_SIGACTION, uintptr(syscall.SIGXFSZ), uintptr(unsafe.Pointer(&sa)), 0, 8, 0, 0); e != 0 {
			os.Exit(9)
		}
	}
	if strings.HasPrefix(mode, "tree") {
		fileTreeChild(dir, size, seed, limit, mode)
		return
	}
	lim := syscall.Rlimit{Cur: uint64(limit), Max: uint64(limit)}
	if mode == "transient" {
		// a condition that passes: the write is cut short with an I/O error once, and the limit is gone a moment later
		var old syscall.Rlimit
		syscall.Getrlimit(syscall.RLIMIT_FSIZE, &old)
		lim.Max = old.Max
		ch := make(chan os.Signal, 1)
		signal.Notify(ch, syscall.SIGXFSZ)
		go func() {
			<-ch
			syscall.Setrlimit(syscall.RLIMIT_FSIZE, &old)
		}()
	}
	if err := syscall.Setrlimit(syscall.RLIMIT_FSIZE, &lim); err != nil {
		os.Exit(9)
	}
	p := filep.NewPersistForPath(dir)
	if err := p.Store(context.Background(), name, payload); err != nil {
		os.Exit(3)
	}
	os.Exit(0)
}

// ---- the same at the level of a tree: MakeRoot over the file store, cut short; retried in the same process (I/O error) or
// after a restart (crash)

func buildFileTree(dir string, n int, seed int64, withCache bool) (*mast.Mast, error) {
	rng := rand.New(rand.NewSource(seed))
	cfg := &mast.RemoteConfig{KeysLike: "", ValuesLike: "", StoreImmutablePartsWith: filep.NewPersistForPath(dir)}
	if withCache {
		cfg.NodeCache = mast.NewNodeCache(1000)
	}
	m, err := mast.NewRoot(&mast.CreateRemoteOptions{BranchFactor: 4}).LoadMast(ctx, cfg)
	if err != nil {
		return nil, err
	}
	for i := 0; i < n; i++ {
		k := fmt.Sprintf("key-%04d", rng.Intn(10000))
		v := strings.Repeat("x", 5+rng.Intn(120))
		if err := m.Insert(ctx, k, v); err != nil {
			return nil, err
		}
	}
	return m, nil
}

type fileTreeOut struct {
	Res1 string     `json:"res1"`
	Res2 string     `json:"res2"`
	Root *mast.Root `json:"root"`
}

func fileTreeChild(dir string, n int, seed int64, limit int, mode string) {
	m, err := buildFileTree(dir, n, seed, mode == "treeioerr-cache" || mode == "treecrash-cache")
	if err != nil {
		os.Exit(9)
	}
	var lim syscall.Rlimit
	syscall.Getrlimit(syscall.RLIMIT_FSIZE, &lim)
	soft := lim
	soft.Cur = uint64(limit)
	if err := syscall.Setrlimit(syscall.RLIMIT_FSIZE, &soft); err != nil {
		os.Exit(9)
	}
	o := fileTreeOut{}
	root, err := m.MakeRoot(ctx)
	o.Res1 = "ok"
	if err != nil {
		o.Res1 = "err"
	}
	// the condition goes away; the caller tries again
	syscall.Setrlimit(syscall.RLIMIT_FSIZE, &lim)
	root2, err := m.MakeRoot(ctx)
	o.Res2 = "ok"
	if err != nil {
		o.Res2 = "err"
	} else {
		root = root2
	}
	o.Root = root
	json.NewEncoder(os.Stdout).Encode(o)
	os.Exit(0)
}

type fileTreeEv struct {
	Op       string `json:"op"`
	ID       int    `json:"id"`
	N        int    `json:"n"`
	Limit    int    `json:"limit"`
	Mode     string `json:"mode"`
	Child    string `json:"child"`
	Res1     string `json:"res1"`
	Res2     string `json:"res2"`
	Nodes    int    `json:"nodes"`    // nodes of the complete tree
	MaxNode  int    `json:"maxnode"`  // bytes of its largest node
	Missing  int    `json:"missing"`  // of the root the child reported: reachable names that do not load
	Corrupt  int    `json:"corrupt"`  // ... or load to bytes that are not the node
	Partial  int    `json:"partial"`  // files left under a node's name whose contents are not that node
	Restore  string `json:"restore"`  // after restart: the same tree persisted again
	SameRoot bool   `json:"sameroot"` // ... gives the root of the complete tree
	Missing2 int    `json:"missing2"`
	Corrupt2 int    `json:"corrupt2"`
	Msg      string `json:"msg"`
}

// walkFileTree loads everything reachable from a root name through the file store and checks each node against its name.
func walkFileTree(dir string, top string) (nodes, maxNode, missing, corrupt int) {
	p := filep.NewPersistForPath(dir)
	seen := map[string]bool{}
	var walk func(name string)
	walk = func(name string) {
		if name == "" || seen[name] {
			return
		}
		seen[name] = true
		b, err := p.Load(ctx, name)
		if err != nil {
			missing++
			return
		}
		if nodeName(b) != name {
			corrupt++
			return
		}
		nodes++
		if len(b) > maxNode {
			maxNode = len(b)
		}
		rn, err := decodeNode("bin", b)
		if err != nil {
			corrupt++
			return
		}
		for _, l := range rn.Links {
			walk(l)
		}
	}
	walk(top)
	return
}

func fileTreeRuns(seed int64, n int, scratch string, self string, out *json.Encoder) {
	rng := rand.New(rand.NewSource(seed ^ 0x7ee))
	for id := 1; id <= n; id++ {
		nent := 5 + rng.Intn(60)
		tseed := rng.Int63()
		// the complete tree, for reference
		refdir := filepath.Join(scratch, fmt.Sprintf("ftref-%d", id))
		os.MkdirAll(refdir, 0755)
		rm, err := buildFileTree(refdir, nent, tseed, false)
		if err != nil {
			panic(err)
		}
		refRoot, err := rm.MakeRoot(ctx)
		if err != nil {
			panic(err)
		}
		nodes, maxNode, _, _ := walkFileTree(refdir, linkOf(refRoot))
		os.RemoveAll(refdir)
		for mi, mode := range []string{"treeioerr", "treeioerr-cache", "treecrash", "treecrash-cache"} {
			limit := rng.Intn(maxNode + 2)
			if rng.Intn(4) == 0 {
				limit = []int{0, 1, maxNode - 1, maxNode}[rng.Intn(4)]
			}
			dir := filepath.Join(scratch, fmt.Sprintf("ft-%d-%s", id, mode))
			os.MkdirAll(dir, 0755)
			ev := fileTreeEv{Op: "ftree", ID: 5000000 + id*4 + mi, N: nent, Limit: limit, Mode: mode, Nodes: nodes, MaxNode: maxNode}
			cmd := exec.Command(self, "filechild", "-dir", dir, "-size", fmt.Sprint(nent), "-pseed", fmt.Sprint(tseed), "-limit", fmt.Sprint(limit), "-mode", mode)
			var stdout bytes.Buffer
			cmd.Stdout = &stdout
			err := cmd.Run()
			var o fileTreeOut
			switch {
			case err == nil && json.Unmarshal(stdout.Bytes(), &o) == nil:
				ev.Child, ev.Res1, ev.Res2 = "ok", o.Res1, o.Res2
			case cmd.ProcessState != nil && cmd.ProcessState.ExitCode() == -1:
				ev.Child = "killed"
			default:
				ev.Child = "broken"
				ev.Msg = fmt.Sprint(err)
			}
			if ev.Child == "ok" && (o.Res1 == "ok" || o.Res2 == "ok") && o.Root != nil {
				_, _, ev.Missing, ev.Corrupt = walkFileTree(dir, linkOf(o.Root))
			}
			if ents, err := os.ReadDir(dir); err == nil {
				p := filep.NewPersistForPath(dir)
				for _, e := range ents {
					if b, err := p.Load(ctx, e.Name()); err == nil && len(e.Name()) == 43 && nodeName(b) != e.Name() {
						ev.Partial++
					}
				}
			}
			// restart: a new process (here: new tree object, new cache) persists the same tree into the same directory
			ev.Restore, _ = guard(func() error {
				m2, err := buildFileTree(dir, nent, tseed, strings.HasSuffix(mode, "-cache"))
				if err != nil {
					return err
				}
				r2, err := m2.MakeRoot(ctx)
				if err != nil {
					return err
				}
				ev.SameRoot = linkOf(r2) == linkOf(refRoot)
				_, _, ev.Missing2, ev.Corrupt2 = walkFileTree(dir, linkOf(r2))
				return nil
			})
			out.Encode(ev)
			os.RemoveAll(dir)
		}
	}
}

// ---- a third way for a write to be cut short: the filesystem of the node directory runs full (ENOSPC). Needs a size-limited
// tmpfs, i.e. the right to mount; where that is not available the cases are skipped (and counted as skipped in the evidence).
func fileEnospcRuns(seed int64, n int, scratch string, out *json.Encoder) {
	rng := rand.New(rand.NewSource(seed ^ 0xe05))
	const page = 4096
	const pages = 12
	for id := 1; id <= n; id++ {
		dir := filepath.Join(scratch, fmt.Sprintf("enospc-%d", id))
		os.MkdirAll(dir, 0755)
		if err := syscall.Mount("tmpfs", dir, "tmpfs", 0, fmt.Sprintf("size=%dk", pages*page/1024)); err != nil {
			os.RemoveAll(dir)
			out.Encode(fileEv{Op: "fcrash", ID: 9000000 + id, Mode: "enospc", Child: "broken", Msg: "mount: " + err.Error()})
			return
		}
		func() {
			defer os.RemoveAll(dir)
			defer syscall.Unmount(dir, syscall.MNT_DETACH)
			size := page*(2+rng.Intn(4)) + rng.Intn(page)
			pseed := rng.Int63()
			payload := filePayload(size, pseed)
			name := randName(rng)
			need := (size + page - 1) / page
			free := rng.Intn(need + 1) // pages left for the node: 0..need (need = it fits)
			filler := filepath.Join(dir, "filler")
			if err := os.WriteFile(filler, make([]byte, (pages-free)*page), 0644); err != nil {
				out.Encode(fileEv{Op: "fcrash", ID: 9000000 + id, Mode: "enospc", Child: "broken", Msg: "filler: " + err.Error()})
				return
			}
			ev := fileEv{Op: "fcrash", ID: 9000000 + id, Len: size, Limit: free * page, Mode: "enospc"}
			p := filep.NewPersistForPath(dir)
			res, msg := guard(func() error { return p.Store(ctx, name, payload) })
			ev.Child, ev.Msg = res, msg
			os.Remove(filler) // the condition goes away
			load := func() (int, bool) {
				b, err := p.Load(ctx, name)
				if err != nil {
					return -1, false
				}
				return len(b), bytes.Equal(b, payload)
			}
			ev.Load1, ev.Same1 = load()
			res, msg = guard(func() error { return p.Store(ctx, name, payload) })
			ev.Restore = res
			if msg != "" {
				ev.Msg += " restore: " + msg
			}
			ev.Load2, ev.Same2 = load()
			if ents, err := os.ReadDir(dir); err == nil {
				for _, e := range ents {
					if e.Name() != name {
						ev.Extra++
					}
				}
			}
			out.Encode(ev)
		}()
	}
}

func filePayload(size int, seed int64) []byte {
	rng := rand.New(rand.NewSource(seed))
	b := make([]byte, size)
	rng.Read(b)
	return b
}

func fileCrashRuns(seed int64, n int, scratch string, self string, out *json.Encoder) {
	rng := rand.New(rand.NewSource(seed))
	id := 0
	for c := 0; c < n; c++ {
		size := []int{1, 2, 7, 64, 300, 5000}[rng.Intn(6)]
		if c%8 == 5 {
			size = 1<<20 + 9 // a node of more than a mebibyte
		}
		pseed := rng.Int63()
		payload := filePayload(size, pseed)
		name := randName(rng)
		var limits []int
		if size <= 64 {
			for l := 0; l <= size; l++ {
				limits = append(limits, l)
			}
		} else {
			limits = []int{0, 1, size - 1, size}
			for i := 0; i < 12; i++ {
				limits = append(limits, rng.Intn(size+1))
			}
			sort.Ints(limits)
		}
		for _, limit := range limits {
			for _, mode := range []string{"crash", "ioerr", "transient"} {
				id++
				dir := filepath.Join(scratch, fmt.Sprintf("fc-%d", id))
				os.MkdirAll(dir, 0755)
				ev := fileEv{Op: "fcrash", ID: id, Len: size, Limit: limit, Mode: mode}
				cmd := exec.Command(self, "filechild", "-dir", dir, "-name", name, "-size", fmt.Sprint(size), "-pseed", fmt.Sprint(pseed),
					"-limit", fmt.Sprint(limit), "-mode", mode)
				err := cmd.Run()
				switch {
				case err == nil:
					ev.Child = "ok"
				case cmd.ProcessState != nil && cmd.ProcessState.ExitCode() == 3:
					ev.Child = "err"
				case cmd.ProcessState != nil && cmd.ProcessState.ExitCode() == -1:
					ev.Child = "killed"
				default:
					ev.Child = "broken"
					ev.Msg = fmt.Sprint(err)
				}
				p := filep.NewPersistForPath(dir)
				load := func() (int, bool) {
					b, err := p.Load(ctx, name)
					if err != nil {
						return -1, false
					}
					return len(b), bytes.Equal(b, payload)
				}
				ev.Load1, ev.Same1 = load()
				res, msg := guard(func() error { return p.Store(ctx, name, payload) })
				ev.Restore = res
				if msg != "" {
					ev.Msg += " restore: " + msg
				}
				ev.Load2, ev.Same2 = load()
				if ents, err := os.ReadDir(dir); err == nil {
					for _, e := range ents {
						if e.Name() != name {
							ev.Extra++
						}
					}
				}
				out.Encode(ev)
				os.RemoveAll(dir)
			}
		}
	}
}
