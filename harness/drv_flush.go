package main

// Driver of the "flush" family (C03): MakeRoot under a controllable Persist.
// Store calls block in the harness until a schedule completes them (in any
// order, successfully or with an injected error); the main goroutine of flush
// is paced through the user-supplied Marshal callback (one call per node in
// the v1marshaler format). Schedules are enumerated depth-first by
// re-executing the same deterministic scenario with every enabled decision
// (stateless exploration), or drawn at random for large trees that saturate
// the 40-slot gate. Every execution is recorded as mk / ss / se / ret events
// (sequence numbers under one mutex) and validated by TLC (TraceFlush.tla).

import (
	"context"
	"encoding/json"
	"fmt"
	"math/rand"
	"sync"
	"sync/atomic"
	"time"

	"github.com/jrhy/mast"
	s3p "github.com/jrhy/mast/persist/s3"
)

type flushEvent struct {
	Op       string   `json:"op"`
	ID       int      `json:"id"`
	N        string   `json:"n"`
	Ok       bool     `json:"ok"`
	HashOk   bool     `json:"hashok"`
	Res      string   `json:"res"`
	Msg      string   `json:"msg"`
	Link     string   `json:"link"`
	Reach    int      `json:"reach"`
	Missing  int      `json:"missing"`
	Inflight int      `json:"inflight"`
	Usable   string   `json:"usable"`
	Reload   string   `json:"reload"`
	Attempt  int      `json:"attempt"`
	Kind     string   `json:"kind"`
	Sched    []string `json:"sched"`
	Dirty    int      `json:"dirty"`
	NoCache  bool     `json:"nocache"` // foreign case without a cache in common
	Foreign  bool     `json:"foreign"`
}

type pendingStore struct {
	name string
	ch   chan error
}

// ctlStore is a Persist whose Store calls wait for the controller.
type ctlStore struct {
	mu       sync.Mutex
	prefix   string
	m        map[string][]byte
	log      *[]flushEvent
	id       int
	inflight []*pendingStore
	free     bool // complete everything at once, successfully
	failProb float64
	rng      *rand.Rand
	nevents  *int64
	maxIn    int
	nStarted int
	nEnded   int
	// cancelAt > 0: the context MakeRoot was called with is cancelled when the cancelAt-th Store call starts
	cancelAt int
	cancel   func()
}

func (s *ctlStore) NodeURLPrefix() string { return s.prefix }

func (s *ctlStore) Load(ctx context.Context, name string) ([]byte, error) {
	s.mu.Lock()
	defer s.mu.Unlock()
	b, ok := s.m[name]
	if !ok {
		return nil, fmt.Errorf("ctlStore: %s not found", name)
	}
	return append([]byte{}, b...), nil
}

func (s *ctlStore) Store(ctx context.Context, name string, b []byte) error {
	s.mu.Lock()
	*s.log = append(*s.log, flushEvent{Op: "ss", ID: s.id, N: name, HashOk: nodeName(b) == name})
	atomic.AddInt64(s.nevents, 1)
	s.nStarted++
	if s.cancelAt > 0 && s.nStarted == s.cancelAt && s.cancel != nil {
		s.cancel()
	}
	if s.free {
		s.m[name] = append([]byte{}, b...)
		s.nEnded++
		*s.log = append(*s.log, flushEvent{Op: "se", ID: s.id, N: name, Ok: true})
		atomic.AddInt64(s.nevents, 1)
		s.mu.Unlock()
		return nil
	}
	p := &pendingStore{name: name, ch: make(chan error, 1)}
	s.inflight = append(s.inflight, p)
	if len(s.inflight) > s.maxIn {
		s.maxIn = len(s.inflight)
	}
	s.mu.Unlock()
	err := <-p.ch
	s.mu.Lock()
	if err == nil {
		s.m[name] = append([]byte{}, b...)
	}
	s.nEnded++
	*s.log = append(*s.log, flushEvent{Op: "se", ID: s.id, N: name, Ok: err == nil})
	atomic.AddInt64(s.nevents, 1)
	s.mu.Unlock()
	return err
}

// complete finishes the idx-th in-flight Store (in start order).
func (s *ctlStore) complete(idx int, fail bool) bool {
	s.mu.Lock()
	if idx >= len(s.inflight) {
		s.mu.Unlock()
		return false
	}
	p := s.inflight[idx]
	s.inflight = append(s.inflight[:idx:idx], s.inflight[idx+1:]...)
	s.mu.Unlock()
	if fail {
		p.ch <- injectedErr(p.name)
	} else {
		p.ch <- nil
	}
	return true
}

func (s *ctlStore) releaseAll() {
	s.mu.Lock()
	s.free = true
	ps := s.inflight
	s.inflight = nil
	s.mu.Unlock()
	for _, p := range ps {
		p.ch <- nil
	}
}

func (s *ctlStore) nInflight() int {
	s.mu.Lock()
	defer s.mu.Unlock()
	return len(s.inflight)
}

// mainGate paces the main goroutine of flush through the Marshal callback.
type mainGate struct {
	mu      sync.Mutex
	active  bool
	free    bool
	waiting bool
	ch      chan struct{}
	st      *ctlStore
}

func (g *mainGate) marshal(v interface{}) ([]byte, error) {
	b, err := json.Marshal(v)
	if !g.active || err != nil {
		return b, err
	}
	g.st.mu.Lock()
	*g.st.log = append(*g.st.log, flushEvent{Op: "mk", ID: g.st.id, N: nodeName(b)})
	atomic.AddInt64(g.st.nevents, 1)
	g.st.mu.Unlock()
	g.mu.Lock()
	if g.free {
		g.mu.Unlock()
		return b, nil
	}
	g.waiting = true
	g.mu.Unlock()
	<-g.ch
	return b, nil
}

func (g *mainGate) step() bool {
	g.mu.Lock()
	if !g.waiting {
		g.mu.Unlock()
		return false
	}
	g.waiting = false
	g.mu.Unlock()
	g.ch <- struct{}{}
	return true
}

func (g *mainGate) isWaiting() bool {
	g.mu.Lock()
	defer g.mu.Unlock()
	return g.waiting
}

func (g *mainGate) release() {
	g.mu.Lock()
	g.free = true
	w := g.waiting
	g.waiting = false
	g.mu.Unlock()
	if w {
		g.ch <- struct{}{}
	}
}

func settle(n *int64) {
	stable := 0
	last := atomic.LoadInt64(n)
	for i := 0; i < 400 && stable < 3; i++ {
		time.Sleep(80 * time.Microsecond)
		cur := atomic.LoadInt64(n)
		if cur == last {
			stable++
		} else {
			stable = 0
			last = cur
		}
	}
}

type flushScenario struct {
	id       int
	seed     int64
	kind     string // "sched" | "big" | "foreign"
	bf       uint
	nkeys    int
	premods  int
	mods     int
	cache    string
	cancelAt int
	failAt   int // kind "sweep": writes complete one at a time in start order, the failAt-th completion fails
}

type flushRun struct {
	ncomp int
	sc    flushScenario
	st    *ctlStore
	gate  *mainGate
	log   []flushEvent
	nev   int64
	m     *mast.Mast
	model map[int]int
	cache mast.NodeCache
	kc    *keyCodec
	vc    *valCodec
}

// build creates the scenario's tree deterministically: some persisted base, then modifications that leave dirty nodes.
func (sc flushScenario) build() *flushRun {
	rng := rand.New(rand.NewSource(sc.seed))
	r := &flushRun{sc: sc, model: map[int]int{}}
	r.st = &ctlStore{prefix: fmt.Sprintf("ctl-%d", sc.id), m: map[string][]byte{}, log: &r.log, id: sc.id, nevents: &r.nev, free: true}
	r.gate = &mainGate{ch: make(chan struct{}), st: r.st}
	r.kc = bigKeyCodec("int", sc.nkeys, sc.bf)
	r.vc = newValCodec("int")
	switch sc.cache {
	case "large":
		r.cache = mast.NewNodeCache(4096)
	case "tiny":
		r.cache = mast.NewNodeCache(2)
	}
	cfg := &mast.RemoteConfig{KeysLike: 0, ValuesLike: 0, StoreImmutablePartsWith: r.st, NodeCache: r.cache, Marshal: r.gate.marshal}
	m, err := mast.NewRoot(&mast.CreateRemoteOptions{BranchFactor: sc.bf, NodeFormat: mast.V1Marshaler}).LoadMast(ctx, cfg)
	if err != nil {
		panic(err)
	}
	r.m = m
	ins := func(n int) {
		for i := 0; i < n; i++ {
			k := 1 + rng.Intn(sc.nkeys)
			v := 1 + rng.Intn(3)
			if old, ok := r.model[k]; ok && rng.Intn(4) == 0 {
				if err := m.Delete(ctx, r.kc.Key(k), old); err != nil {
					panic(err)
				}
				delete(r.model, k)
				continue
			}
			if err := m.Insert(ctx, r.kc.Key(k), v); err != nil {
				panic(err)
			}
			r.model[k] = v
		}
	}
	if sc.premods > 0 {
		ins(sc.premods)
		if _, err := m.MakeRoot(ctx); err != nil {
			panic(err)
		}
	}
	ins(sc.mods)
	r.log = nil
	atomic.StoreInt64(&r.nev, 0)
	return r
}

// modify applies a few insertions / deletions to the tree (healthy store) and keeps the model in step.
func (r *flushRun) modify(rng *rand.Rand, n int) {
	r.st.mu.Lock()
	r.st.free = true
	r.st.mu.Unlock()
	r.gate.active = false
	for i := 0; i < n; i++ {
		k := 1 + rng.Intn(r.sc.nkeys)
		if old, ok := r.model[k]; ok && rng.Intn(3) == 0 {
			if res, _ := guard(func() error { return r.m.Delete(ctx, r.kc.Key(k), old) }); res == "ok" {
				delete(r.model, k)
			}
			continue
		}
		v := 4 + rng.Intn(3)
		if res, _ := guard(func() error { return r.m.Insert(ctx, r.kc.Key(k), v) }); res == "ok" {
			r.model[k] = v
		}
	}
	r.add(flushEvent{Op: "mod"})
}

func (r *flushRun) add(e flushEvent) {
	r.st.mu.Lock()
	e.ID = r.sc.id
	r.log = append(r.log, e)
	r.st.mu.Unlock()
}

// observeReturn fills the post-return observations of a ret event.
func (r *flushRun) observeReturn(e *flushEvent, root *mast.Root) {
	// from here on the store is healthy and completes everything at once
	r.st.releaseAll()
	r.gate.release()
	r.gate.active = false
	if e.Res == "ok" && root != nil {
		e.Link = linkOf(root)
		snap := newRecStore("snapshot")
		r.st.mu.Lock()
		for n, b := range r.st.m {
			snap.m[n] = b
		}
		r.st.mu.Unlock()
		p := &projector{nf: "v1", kc: r.kc, vc: r.vc, st: snap}
		acc := map[string]bool{}
		p.reach(e.Link, acc)
		for n := range acc {
			if !snap.has(n) {
				e.Missing++
			}
		}
		e.Reach = len(acc)
		// a fresh, cache-less loader must see exactly the model
		e.Reload = "ok"
		res, msg := guard(func() error {
			m2, err := root.LoadMast(ctx, &mast.RemoteConfig{KeysLike: 0, ValuesLike: 0, StoreImmutablePartsWith: r.st})
			if err != nil {
				return err
			}
			return r.sameAsModel(m2)
		})
		if res != "ok" {
			e.Reload = res + ": " + msg
		}
	}
	// the tree itself must stay fully usable, whatever the outcome
	e.Usable = "ok"
	res, msg := guard(func() error {
		if err := r.sameAsModel(r.m); err != nil {
			return err
		}
		probe := r.kc.Key(1)
		old, had := r.model[1]
		if err := r.m.Insert(ctx, probe, 77); err != nil {
			return fmt.Errorf("insert after flush: %w", err)
		}
		if had {
			if err := r.m.Insert(ctx, probe, old); err != nil {
				return err
			}
		} else if err := r.m.Delete(ctx, probe, 77); err != nil {
			return fmt.Errorf("delete after flush: %w", err)
		}
		return r.sameAsModel(r.m)
	})
	if res != "ok" {
		e.Usable = res + ": " + msg
	}
}

func (r *flushRun) sameAsModel(m *mast.Mast) error {
	got := map[int]int{}
	if err := m.Iter(ctx, func(k, v interface{}) error {
		got[r.kc.Rank(k)] = v.(int)
		return nil
	}); err != nil {
		return fmt.Errorf("iterate: %w", err)
	}
	if len(got) != len(r.model) || uint64(len(got)) != m.Size() {
		return fmt.Errorf("contents differ: %d entries, size %d, model %d", len(got), m.Size(), len(r.model))
	}
	for k, v := range r.model {
		if got[k] != v {
			return fmt.Errorf("contents differ at key %d", k)
		}
	}
	return nil
}

// attempt runs one MakeRoot under the schedule; returns the enabled decisions at the end of the schedule.
func (r *flushRun) attempt(sched []string, attemptNo int, random bool, rng *rand.Rand) (enabled []string, res string) {
	r.st.mu.Lock()
	r.st.free = false
	r.st.mu.Unlock()
	r.gate.mu.Lock()
	r.gate.free = random
	r.gate.mu.Unlock()
	r.gate.active = true
	type retT struct {
		root *mast.Root
		res  string
		msg  string
		at   int // index of the ret event in the log
	}
	done := make(chan retT, 1)
	cctx, cancel := context.WithCancel(ctx)
	defer cancel()
	r.st.mu.Lock()
	r.st.cancel = cancel
	if r.sc.kind == "cancel" && attemptNo == 1 {
		r.st.cancelAt = r.sc.cancelAt
		if r.sc.cancelAt == 0 {
			cancel() // already cancelled when MakeRoot is called
		}
	} else {
		r.st.cancelAt = -1
	}
	r.st.nStarted, r.st.nEnded = 0, 0
	r.st.mu.Unlock()
	go func() {
		var root *mast.Root
		res, msg := guard(func() error {
			var err error
			root, err = r.m.MakeRoot(cctx)
			return err
		})
		// the return is logged at once, in sequence with the store events, with the number of writes still running
		r.st.mu.Lock()
		r.log = append(r.log, flushEvent{Op: "ret", ID: r.sc.id, Res: res, Msg: msg, Attempt: attemptNo, Inflight: r.st.nStarted - r.st.nEnded})
		at := len(r.log) - 1
		atomic.AddInt64(&r.nev, 1)
		r.st.mu.Unlock()
		done <- retT{root, res, msg, at}
	}()
	finished := false
	var rt retT
	poll := func() bool {
		if finished {
			return true
		}
		select {
		case rt = <-done:
			finished = true
		default:
		}
		return finished
	}
	apply := func(d string) bool {
		// wait (bounded) until the decision is applicable
		for i := 0; i < 60; i++ {
			settle(&r.nev)
			if poll() {
				return false
			}
			var okd bool
			switch d[0] {
			case 'm':
				okd = r.gate.step()
			case 'o', 'e':
				var idx int
				fmt.Sscanf(d[1:], "%d", &idx)
				okd = r.st.complete(idx, d[0] == 'e')
			}
			if okd {
				return true
			}
		}
		return false
	}
	applied := 0
	for _, d := range sched {
		if !apply(d) {
			break
		}
		applied++
	}
	if random {
		// random completion order and failures until MakeRoot returns
		idleSince := time.Now()
		for !poll() {
			settle(&r.nev)
			n := r.st.nInflight()
			if n == 0 {
				// nothing in flight and no return: either the walker is between two nodes, or MakeRoot is stuck (then: "hang" below)
				if time.Since(idleSince) > 3*time.Second {
					break
				}
				time.Sleep(50 * time.Microsecond)
				continue
			}
			idleSince = time.Now()
			if r.sc.kind == "sweep" && attemptNo == 1 {
				r.ncomp++
				r.st.complete(0, r.ncomp == r.sc.failAt)
				continue
			}
			r.st.complete(rng.Intn(n), rng.Float64() < r.st.failProb)
		}
	}
	settle(&r.nev)
	if !poll() && applied == len(sched) {
		if r.gate.isWaiting() {
			enabled = append(enabled, "m")
		}
		for i := 0; i < r.st.nInflight(); i++ {
			enabled = append(enabled, fmt.Sprintf("o%d", i), fmt.Sprintf("e%d", i))
		}
	}
	// if MakeRoot has not returned yet, record what is in flight now and let everything finish successfully
	if !poll() {
		r.gate.release()
		r.st.mu.Lock()
		r.st.free = true
		ps := r.st.inflight
		r.st.inflight = nil
		r.st.mu.Unlock()
		for _, p := range ps {
			p.ch <- nil
		}
		select {
		case rt = <-done:
			finished = true
		case <-time.After(5 * time.Second):
			r.add(flushEvent{Op: "ret", Res: "hang", Attempt: attemptNo, Usable: "", Reload: ""})
			return nil, "hang"
		}
	}
	r.st.mu.Lock()
	e := r.log[rt.at]
	r.st.mu.Unlock()
	r.observeReturn(&e, rt.root)
	r.st.mu.Lock()
	r.log[rt.at] = e
	r.st.mu.Unlock()
	return enabled, rt.res
}

// runSchedule executes a scenario under one schedule, with retries after a failure, and writes the events.
var flushRunID int
var flushRunStep = 1 // run ids of different driver processes do not collide: part + k*parts

func runSchedule(sc flushScenario, sched []string, out *json.Encoder, rng *rand.Rand) (enabled []string) {
	flushRunID += flushRunStep
	sc.id = flushRunID
	r := sc.build()
	r.st.failProb = 0.03
	r.add(flushEvent{Op: "fbegin", Kind: sc.kind, Sched: append([]string{}, sched...)})
	var res string
	enabled, res = r.attempt(sched, 1, sc.kind == "big" || sc.kind == "cancel" || sc.kind == "sweep", rng)
	for a := 2; a <= 3 && res == "err"; a++ {
		// between a failed attempt and the retry the tree is sometimes modified again (the retry must then persist the current contents)
		if rng.Intn(2) == 0 {
			r.modify(rng, 1+rng.Intn(2))
		}
		// retry: the second attempt fails one more write at random, the third runs on a healthy store
		r.add(flushEvent{Op: "retry", Attempt: a})
		if a == 2 && rng.Intn(2) == 0 {
			r.st.failProb = 0.2
			_, res = r.attempt(nil, a, true, rng)
		} else {
			r.st.failProb = 0
			_, res = r.attempt(nil, a, true, rng)
		}
	}
	for i := range r.log {
		if r.log[i].Sched == nil {
			r.log[i].Sched = []string{}
		}
		out.Encode(r.log[i])
	}
	return enabled
}

// exploreSchedules enumerates schedules depth-first up to a budget of executions.
func exploreSchedules(sc flushScenario, out *json.Encoder, budget *int, rng *rand.Rand) {
	var dfs func(prefix []string)
	dfs = func(prefix []string) {
		if *budget <= 0 {
			return
		}
		*budget--
		en := runSchedule(sc, prefix, out, rng)
		rng.Shuffle(len(en), func(i, j int) { en[i], en[j] = en[j], en[i] })
		for _, d := range en {
			dfs(append(append([]string{}, prefix...), d))
		}
	}
	dfs(nil)
}

// reachVia collects the names reachable from a link by loading through a Persist.
func reachVia(p mast.Persist, nf string, name string, acc map[string]bool) {
	if name == "" || acc[name] {
		return
	}
	acc[name] = true
	b, err := p.Load(ctx, name)
	if err != nil {
		return
	}
	rn, err := decodeNode(nf, b)
	if err != nil {
		return
	}
	for _, l := range rn.Links {
		reachVia(p, nf, l, acc)
	}
}

// foreignCacheCase: one cache shared by two stores with different prefixes (two harness stores, or two S3 persists on one bucket
// that differ only in their object prefix). The second tree, with the same contents, must write all its nodes to its own store.
func foreignCacheCase(id int, seed int64, out *json.Encoder) {
	flushRunID += flushRunStep
	id = flushRunID
	rng := rand.New(rand.NewSource(seed))
	var cache mast.NodeCache = mast.NewNodeCache(4096)
	var p1, p2 mast.Persist
	nocache := false
	if rng.Intn(2) == 0 {
		p1, p2 = newRecStore(fmt.Sprintf("first-%d", id)), newRecStore(fmt.Sprintf("second-%d", id))
	} else {
		fs := &fakeS3{obj: map[string][]byte{}}
		// two stores in one bucket, sometimes one of them without a prefix, sometimes without any cache in common
		pa, pb := []string{"a/", ""}[rng.Intn(2)], "b/"
		if rng.Intn(3) == 0 {
			pa, pb = "node", "node/" // prefixes that differ only by a trailing slash are different stores
		}
		a := s3p.NewPersist(fs, "http://endpoint", "bucket", pa)
		if rng.Intn(2) == 0 {
			cache, nocache = nil, true
		}
		b := s3p.NewPersist(fs, "http://endpoint", "bucket", pb)
		p1, p2 = &a, &b
	}
	nk := 20 + rng.Intn(60)
	bf := []uint{2, 3, 4}[rng.Intn(3)]
	kc := bigKeyCodec("int", nk, bf)
	model := map[int]int{}
	mk := func(st mast.Persist) *mast.Mast {
		m, err := mast.NewRoot(&mast.CreateRemoteOptions{BranchFactor: bf}).LoadMast(ctx,
			&mast.RemoteConfig{KeysLike: 0, ValuesLike: 0, StoreImmutablePartsWith: st, NodeCache: cache})
		if err != nil {
			panic(err)
		}
		return m
	}
	m1, m2 := mk(p1), mk(p2)
	for i := 0; i < nk; i++ {
		k, v := 1+rng.Intn(nk), 1+rng.Intn(3)
		model[k] = v
		m1.Insert(ctx, kc.Key(k), v)
		m2.Insert(ctx, kc.Key(k), v)
	}
	if _, err := m1.MakeRoot(ctx); err != nil {
		panic(err)
	}
	out.Encode(flushEvent{Op: "fbegin", ID: id, Kind: "foreign", Sched: []string{}})
	e := flushEvent{Op: "ret", ID: id, Attempt: 1, Foreign: true, NoCache: nocache, Sched: []string{}, Usable: "ok", Reload: "ok"}
	var root *mast.Root
	e.Res, e.Msg = guard(func() error {
		var err error
		root, err = m2.MakeRoot(ctx)
		return err
	})
	if e.Res == "ok" {
		// the first store holds the whole version: its names tell which nodes the second store must hold too
		acc1 := map[string]bool{}
		reachVia(p1, "bin", linkOf(root), acc1)
		e.Reach = len(acc1)
		for n := range acc1 {
			if _, err := p2.Load(ctx, n); err != nil {
				e.Missing++
			}
		}
		res, msg := guard(func() error {
			m3, err := root.LoadMast(ctx, &mast.RemoteConfig{KeysLike: 0, ValuesLike: 0, StoreImmutablePartsWith: p2})
			if err != nil {
				return err
			}
			n := 0
			if err := m3.Iter(ctx, func(k, v interface{}) error { n++; return nil }); err != nil {
				return err
			}
			if n != len(model) {
				return fmt.Errorf("%d entries, expected %d", n, len(model))
			}
			return nil
		})
		if res != "ok" {
			e.Reload = res + ": " + msg
		}
	}
	out.Encode(e)
}

func flushFamily(seed int64, n int, out *json.Encoder, budget int, scen int, part, parts int) {
	// every case draws from its own generator, so that the cases can be split over several driver processes (part of parts)
	id := 0
	mine := func() bool { return parts <= 1 || id%parts == part }
	if parts > 1 {
		flushRunID, flushRunStep = part+1, parts
	}
	// 1. exhaustive schedules of small scenarios
	per := budget / scen
	for i := 0; i < scen; i++ {
		id++
		if !mine() {
			continue
		}
		rng := rand.New(rand.NewSource(seed*31 + int64(id)))
		sc := flushScenario{id: id, seed: seed*7919 + int64(i), kind: "sched", bf: 2, nkeys: 5 + rng.Intn(6),
			premods: []int{0, 0, 6, 10}[rng.Intn(4)], mods: 2 + rng.Intn(5), cache: []string{"none", "large", "tiny"}[rng.Intn(3)]}
		b := per
		exploreSchedules(sc, out, &b, rng)
	}
	// 2. large trees with random completion order, delays and failures (saturates the gate)
	for i := 0; i < n; i++ {
		id++
		if !mine() {
			continue
		}
		rng := rand.New(rand.NewSource(seed*31 + int64(id)))
		sc := flushScenario{id: id, seed: seed*104729 + int64(i), kind: "big", bf: []uint{2, 3, 4}[rng.Intn(3)], nkeys: 150 + rng.Intn(300),
			premods: []int{0, 200}[rng.Intn(2)], mods: 120 + rng.Intn(200), cache: []string{"none", "large"}[rng.Intn(2)]}
		runSchedule(sc, nil, out, rng)
	}
	// 2a. one failing write at every position of the completion order of a large flush (writes completing one at a time, oldest first)
	sweeps := 1 + n/50
	for t := 0; t < sweeps; t++ {
		trng := rand.New(rand.NewSource(seed*7 + int64(t)))
		// (more dirty nodes than the 40 slots of the write gate, so that the failing write is also one that had to wait for a slot)
		bf, nkeys, mods := []uint{2, 3, 4}[trng.Intn(3)], 250+trng.Intn(200), 130+trng.Intn(60)
		for j := 1; j <= 170; j++ {
			id++
			if !mine() {
				continue
			}
			rng := rand.New(rand.NewSource(seed*31 + int64(id)))
			sc := flushScenario{id: id, seed: seed*50021 + int64(t), kind: "sweep", bf: bf, nkeys: nkeys, premods: 200, mods: mods, cache: "none", failAt: j}
			runSchedule(sc, nil, out, rng)
		}
	}
	// 2b. the caller's context ends while writes are still queued (the stores here ignore the context): whatever MakeRoot
	// reports, a success must be complete
	for i := 0; i < n; i++ {
		id++
		if !mine() {
			continue
		}
		rng := rand.New(rand.NewSource(seed*31 + int64(id)))
		sc := flushScenario{id: id, seed: seed*611953 + int64(i), kind: "cancel", bf: []uint{2, 3, 4}[rng.Intn(3)], nkeys: 40 + rng.Intn(100),
			premods: []int{0, 60}[rng.Intn(2)], mods: 30 + rng.Intn(80), cache: []string{"none", "large"}[rng.Intn(2)], cancelAt: rng.Intn(12)}
		runSchedule(sc, nil, out, rng)
	}
	// 3. a cache shared between two stores
	for i := 0; i < n; i++ {
		id++
		if !mine() {
			continue
		}
		foreignCacheCase(id, seed*15485863+int64(i), out)
	}
}
