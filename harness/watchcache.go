package main

// watchCache wraps a NodeCache and remembers every node object handed to it together with a digest of its entries and
// links. Node objects in the cache are shared by every tree that loads their name, so they must never change afterwards
// (C02, C11): check() re-digests them. The objects are read through reflection on the exported embedded Node struct; if the
// library's types no longer allow that, the watch silently does nothing (it can then not raise an alarm either).

import (
	"fmt"
	"reflect"
	"sync"

	"github.com/jrhy/mast"
)

type watched struct {
	key    string
	obj    interface{}
	digest string
}

type watchCache struct {
	inner mast.NodeCache
	mu    sync.Mutex
	seen  map[interface{}]*watched // by object identity (pointer)
	off   bool
}

func newWatchCache(inner mast.NodeCache) *watchCache {
	return &watchCache{inner: inner, seen: map[interface{}]*watched{}}
}

func nodeDigest(obj interface{}) (d string, ok bool) {
	defer func() {
		if recover() != nil {
			d, ok = "", false
		}
	}()
	v := reflect.ValueOf(obj)
	if v.Kind() != reflect.Ptr || v.IsNil() {
		return "", false
	}
	f := v.Elem().FieldByName("Node")
	if !f.IsValid() || !f.CanInterface() {
		return "", false
	}
	n, isNode := f.Interface().(mast.Node)
	if !isNode {
		return "", false
	}
	links := ""
	for _, l := range n.Link {
		switch x := l.(type) {
		case nil:
			links += "-,"
		case string:
			links += x + ","
		default:
			links += fmt.Sprintf("<%T>,", l)
		}
	}
	return fmt.Sprintf("%v|%v|%s", n.Key, n.Value, links), true
}

func (c *watchCache) Add(key, value interface{}) {
	c.inner.Add(key, value)
	if d, ok := nodeDigest(value); ok {
		c.mu.Lock()
		if _, dup := c.seen[value]; !dup {
			c.seen[value] = &watched{key: fmt.Sprint(key), obj: value, digest: d}
		}
		c.mu.Unlock()
	}
}
func (c *watchCache) Contains(key interface{}) bool           { return c.inner.Contains(key) }
func (c *watchCache) Get(key interface{}) (interface{}, bool) { return c.inner.Get(key) }

// check returns the cache keys of the objects whose contents changed since they were handed to the cache.
func (c *watchCache) check() []string {
	c.mu.Lock()
	defer c.mu.Unlock()
	var bad []string
	for _, w := range c.seen {
		d, ok := nodeDigest(w.obj)
		if ok && d != w.digest {
			bad = append(bad, w.key)
			w.digest = d // report each change once
		}
	}
	return bad
}
