package main

// Key and value codecs: the specification talks about key ranks 1..NK and
// value ranks 1..NV; a codec maps ranks monotonically to concrete Go values of
// one of the supported types and back, and computes each key's layer with an
// implementation that is independent of the library (integer rule; CRC-64/ECMA
// rule on the marshaled bytes).

import (
	"bytes"
	"encoding/json"
	"fmt"
	"hash/crc64"
	"math/rand"
	"sort"

	"github.com/jrhy/mast"
)

var ecma = crc64.MakeTable(crc64.ECMA)

func uintLayerRef(v uint64, bf uint) int {
	l := 0
	for v != 0 && v%uint64(bf) == 0 {
		v /= uint64(bf)
		l++
	}
	return l
}

func intLayerRef(v int64, bf uint) int {
	l := 0
	for v != 0 && v%int64(bf) == 0 {
		v /= int64(bf)
		l++
	}
	return l
}

func blobLayerRef(b []byte, bf uint) int { return uintLayerRef(crc64.Checksum(b, ecma), bf) }

// UK is a user key type implementing mast.Key with an explicit layer, so that
// arbitrary (adversarial) layer assignments chosen by TLC can be replayed.
type UK struct {
	N int
	L uint8
}

func (k UK) Layer(bf uint) uint8 { return k.L }
func (k UK) Order(o mast.Key) int {
	ok := o.(UK)
	if k.N < ok.N {
		return -1
	} else if k.N > ok.N {
		return 1
	}
	return 0
}

// SK is a plain struct key: ordered and layered by its marshaled bytes.
type SK struct {
	A string
	B int
}

// SV is a struct value.
type SV struct {
	X int
	Y string
}

type keyCodec struct {
	name   string
	bf     uint
	keys   []interface{} // index rank-1
	layers []int
	zero   interface{}
	idx    map[string]int
	jidx   map[string]int
}

func (c *keyCodec) Key(rank int) interface{} { return c.keys[rank-1] }
func (c *keyCodec) NK() int                  { return len(c.keys) }

// reverse: the universe under the reversed order (a caller-supplied KeyCompare that sorts descending): rank 1 is the largest key
func (c *keyCodec) reverse() {
	for i, j := 0, len(c.keys)-1; i < j; i, j = i+1, j-1 {
		c.keys[i], c.keys[j] = c.keys[j], c.keys[i]
		c.layers[i], c.layers[j] = c.layers[j], c.layers[i]
	}
	c.idx, c.jidx = nil, nil
}

func canonKey(k interface{}) string {
	switch v := k.(type) {
	case []byte:
		return "b:" + string(v)
	default:
		return fmt.Sprintf("%T:%v", k, k)
	}
}

// warm builds the lookup tables now. Drivers that use one codec from several goroutines call it before starting them: the
// tables are then only read (no lock: a lock here would order the goroutines and could hide a race of the library).
func (c *keyCodec) warm() {
	if len(c.keys) > 0 {
		c.Rank(c.keys[0])
		c.RankFromJSON([]byte("null"))
	}
}

// Rank returns the rank of a concrete key, or -1 if it is not of this codec.
func (c *keyCodec) Rank(k interface{}) int {
	if c.idx == nil {
		c.idx = map[string]int{}
		for i, x := range c.keys {
			c.idx[canonKey(x)] = i + 1
		}
	}
	if r, ok := c.idx[canonKey(k)]; ok {
		return r
	}
	return -1
}

func (c *keyCodec) RankFromJSON(raw []byte) int {
	if c.jidx == nil {
		c.jidx = map[string]int{}
		for i, x := range c.keys {
			b, _ := json.Marshal(x)
			c.jidx[string(b)] = i + 1
		}
	}
	if r, ok := c.jidx[string(raw)]; ok {
		return r
	}
	return -1
}

var keyTypes = []string{"int", "int64", "uint", "uint64", "string", "bytes", "userkey", "struct"}

// newKeyCodec builds nk keys of the given type in ascending order. For the
// built-in types the keys are drawn so that, at branch factor bf, several
// layers occur; for "userkey" the layers are given (or random in 0..maxLayer).
func newKeyCodec(kt string, nk int, bf uint, rng *rand.Rand, userLayers []int, maxLayer int) *keyCodec {
	c := &keyCodec{name: kt, bf: bf}
	switch kt {
	case "int", "int64", "uint", "uint64":
		signed := kt == "int" || kt == "int64"
		set := map[int64]bool{}
		// sometimes a "spike": one or two keys two or three layers up and every other key in the bottom layer, so that inserting
		// or deleting a spike key changes the height by more than one level at once
		if rng.Intn(6) == 0 {
			for n := 1 + rng.Intn(2); n > 0; n-- {
				v := int64(bf) * int64(bf)
				if rng.Intn(2) == 0 {
					v *= int64(bf)
				}
				set[v*int64(1+rng.Intn(int(bf)-1+1))] = true
			}
			for len(set) < nk {
				v := int64(1 + rng.Intn(200))
				if v%int64(bf) != 0 {
					set[v] = true
				}
			}
		}
		for len(set) < nk {
			var v int64
			switch rng.Intn(7) {
			case 0, 1:
				v = int64(rng.Intn(60))
			case 2, 3:
				v = int64(1+rng.Intn(5)) * int64(bf)
			case 4:
				// very high layers at small branch factors (multiples of 2^32 and beyond: layer >= 32 at branch factor 2)
				v = int64(1+rng.Intn(6)) << uint(32+rng.Intn(8))
			default:
				v = int64(1+rng.Intn(3)) * int64(bf) * int64(bf)
				if rng.Intn(3) == 0 {
					v *= int64(bf)
				}
			}
			if signed && rng.Intn(3) == 0 {
				v = -v
			}
			set[v] = true
		}
		var vs []int64
		for v := range set {
			vs = append(vs, v)
		}
		sort.Slice(vs, func(i, j int) bool { return vs[i] < vs[j] })
		// sometimes spread the universe over the whole range of the type (keys at and above 2^63, far below zero)
		wide := rng.Intn(3) == 0
		for i, v := range vs {
			switch kt {
			case "int":
				if wide && i < len(vs)/2 {
					v -= 1 << 62
				} else if wide {
					v += 1 << 62
				}
				c.keys = append(c.keys, int(v))
				c.layers = append(c.layers, intLayerRef(v, bf))
			case "int64":
				if wide && i < len(vs)/2 {
					v -= 1 << 62
				} else if wide {
					v += 1 << 62
				}
				c.keys = append(c.keys, int64(v))
				c.layers = append(c.layers, intLayerRef(v, bf))
			case "uint", "uint64":
				u := uint64(v)
				if wide && i >= len(vs)/2 {
					u += 1 << 63
				}
				if kt == "uint" {
					c.keys = append(c.keys, uint(u))
				} else {
					c.keys = append(c.keys, u)
				}
				c.layers = append(c.layers, uintLayerRef(u, bf))
			}
		}
		switch kt {
		case "int":
			c.zero = int(0)
		case "int64":
			c.zero = int64(0)
		case "uint":
			c.zero = uint(0)
		case "uint64":
			c.zero = uint64(0)
		}
	case "string", "bytes", "struct":
		// candidates with their CRC layers; prefer a spread of layers
		type cand struct {
			s string
			l int
		}
		enc := func(s string) []byte {
			if kt == "struct" {
				b, _ := json.Marshal(SK{A: s})
				return b
			}
			return []byte(s)
		}
		picked := map[string]int{}
		want := []int{0, 0, 1, 0, 2, 1, 0, 1, 0, 2, 0, 3}
		for i := 0; len(picked) < nk; i++ {
			w := want[i%len(want)]
			for try := 0; try < 4000; try++ {
				s := fmt.Sprintf("k%04d", rng.Intn(10000))
				if _, ok := picked[s]; ok {
					continue
				}
				l := blobLayerRef(enc(s), bf)
				if l >= w || try > 3000 {
					picked[s] = l
					break
				}
			}
		}
		var ss []string
		for s := range picked {
			ss = append(ss, s)
		}
		sort.Strings(ss)
		for _, s := range ss {
			switch kt {
			case "string":
				c.keys = append(c.keys, s)
			case "bytes":
				c.keys = append(c.keys, []byte(s))
			case "struct":
				c.keys = append(c.keys, SK{A: s})
			}
			c.layers = append(c.layers, picked[s])
		}
		switch kt {
		case "string":
			c.zero = ""
		case "bytes":
			c.zero = []byte{}
		case "struct":
			c.zero = SK{}
		}
	case "userkey":
		spike := -1
		if userLayers == nil && maxLayer >= 2 && rng.Intn(6) == 0 {
			spike = rng.Intn(nk) // see above
		}
		for i := 0; i < nk; i++ {
			l := 0
			if userLayers != nil {
				l = userLayers[i]
			} else if spike >= 0 {
				if i == spike || (i == (spike+3)%nk && rng.Intn(2) == 0) {
					l = 2 + rng.Intn(maxLayer-1)
				}
			} else {
				l = []int{0, 0, 0, 1, 1, 2, 3}[rng.Intn(7)]
				if l > maxLayer {
					l = maxLayer
				}
			}
			c.keys = append(c.keys, UK{N: i + 1, L: uint8(l)})
			c.layers = append(c.layers, l)
		}
		c.zero = UK{}
	default:
		panic("unknown key type " + kt)
	}
	return c
}

type valCodec struct {
	name string
	zero interface{}
}

// PV is a comparable struct value that contains a pointer (equal values are different allocations).
type PV struct {
	X int
	P *string
}

var valTypes = []string{"int", "string", "bytes", "intslice", "struct", "ptrstruct"}

func newValCodec(vt string) *valCodec {
	c := &valCodec{name: vt}
	switch vt {
	case "int":
		c.zero = 0
	case "string":
		c.zero = ""
	case "bytes":
		c.zero = []byte{}
	case "intslice":
		c.zero = []int{}
	case "struct":
		c.zero = SV{}
	case "ptrstruct":
		c.zero = PV{}
	case "nilstr", "nilonly":
		// values that may be nil (a tree used as a set): ValuesLike nil, needs UnmarshalerUsesRegisteredTypes; nilonly: every value
		// is nil (the only use of nil ValuesLike the binary format supports)
		c.zero = nil
	default:
		panic("unknown value type " + vt)
	}
	return c
}

func (c *valCodec) Val(rank int) interface{} {
	switch c.name {
	case "int":
		return rank
	case "string":
		return fmt.Sprintf("v%d", rank)
	case "bytes":
		return []byte{byte(rank), 0xff, 0}
	case "intslice":
		return []int{rank, -rank}
	case "struct":
		return SV{X: rank, Y: fmt.Sprintf("y%d", rank)}
	case "ptrstruct":
		p := fmt.Sprintf("p%d", rank) // a fresh allocation every time
		return PV{X: rank, P: &p}
	case "nilonly":
		return nil
	case "nilstr":
		if rank == 1 {
			return nil
		}
		return fmt.Sprintf("v%d", rank)
	}
	panic("val")
}

func (c *valCodec) Rank(v interface{}) int {
	if v == nil {
		if c.name == "nilstr" || c.name == "nilonly" {
			return 1
		}
		return -1
	}
	switch x := v.(type) {
	case int:
		return x
	case string:
		var r int
		if _, err := fmt.Sscanf(x, "v%d", &r); err == nil {
			return r
		}
	case []byte:
		if len(x) == 3 && x[1] == 0xff && x[2] == 0 {
			return int(x[0])
		}
	case []int:
		if len(x) == 2 && x[1] == -x[0] {
			return x[0]
		}
	case SV:
		if x.Y == fmt.Sprintf("y%d", x.X) {
			return x.X
		}
	case PV:
		if x.P != nil && *x.P == fmt.Sprintf("p%d", x.X) {
			return x.X
		}
	}
	return -1
}

func (c *valCodec) RankFromJSON(raw []byte) int {
	if (c.name == "nilstr" || c.name == "nilonly") && string(raw) == "null" {
		return 1
	}
	for r := 0; r < 64; r++ {
		b, _ := json.Marshal(c.Val(r))
		if bytes.Equal(b, raw) {
			return r
		}
	}
	return -1
}
