package main

// Independent decoders of the two published node formats, and the projection
// of a persisted version to the specification's node term
//   {"k":[ranks], "v":[ranks], "c":[ [] | [term], ... ]}
// (the specification's *name* of a node is this term, by content addressing).

import (
	"bytes"
	"encoding/binary"
	"encoding/gob"
	"encoding/json"
	"errors"
	"fmt"
	"reflect"
)

type rawNode struct {
	Keys  [][]byte // marshaled keys
	Vals  [][]byte
	Links []string // "" = nil link; always len(Keys)+1 after normalisation
	// as decoded, before normalisation
	LinkCount int
}

func decodeUvarintSeq(buf []byte) ([][]byte, []byte, error) {
	n, k := binary.Uvarint(buf)
	if k <= 0 {
		return nil, nil, errors.New("bad count")
	}
	buf = buf[k:]
	out := make([][]byte, 0, n)
	for i := uint64(0); i < n; i++ {
		l, k := binary.Uvarint(buf)
		if k <= 0 {
			return nil, nil, errors.New("bad length")
		}
		buf = buf[k:]
		if uint64(len(buf)) < l {
			return nil, nil, errors.New("short body")
		}
		out = append(out, append([]byte{}, buf[:l]...))
		buf = buf[l:]
	}
	return out, buf, nil
}

func decodeBinaryNode(b []byte) (*rawNode, error) {
	keys, rest, err := decodeUvarintSeq(b)
	if err != nil {
		return nil, fmt.Errorf("keys: %w", err)
	}
	vals, rest, err := decodeUvarintSeq(rest)
	if err != nil {
		return nil, fmt.Errorf("values: %w", err)
	}
	links, rest, err := decodeUvarintSeq(rest)
	if err != nil {
		return nil, fmt.Errorf("links: %w", err)
	}
	if len(rest) != 0 {
		return nil, errors.New("trailing bytes")
	}
	n := &rawNode{Keys: keys, Vals: vals, LinkCount: len(links)}
	for _, l := range links {
		n.Links = append(n.Links, string(l))
	}
	return n, nil
}

func decodeV1Node(b []byte) (*rawNode, error) {
	var sn struct {
		Key   []json.RawMessage
		Value []json.RawMessage
		Link  []*string
	}
	if err := json.Unmarshal(b, &sn); err != nil {
		return nil, err
	}
	n := &rawNode{LinkCount: len(sn.Link)}
	for _, k := range sn.Key {
		n.Keys = append(n.Keys, []byte(k))
	}
	for _, v := range sn.Value {
		n.Vals = append(n.Vals, []byte(v))
	}
	for _, l := range sn.Link {
		if l == nil {
			n.Links = append(n.Links, "")
		} else {
			n.Links = append(n.Links, *l)
		}
	}
	return n, nil
}

func decodeNode(nf string, b []byte) (*rawNode, error) {
	var n *rawNode
	var err error
	if nf == "bin" {
		n, err = decodeBinaryNode(b)
	} else {
		n, err = decodeV1Node(b)
	}
	if err != nil {
		return nil, err
	}
	if n.LinkCount == 0 {
		n.Links = make([]string, len(n.Keys)+1)
	}
	return n, nil
}

// term is the JSON image of the specification's node term.
type term struct {
	K []int    `json:"k"`
	V []int    `json:"v"`
	C [][]term `json:"c"`
}

var missingTerm = term{K: []int{-1}, V: []int{-1}, C: [][]term{{}, {}}}

type projector struct {
	gob bool // elements are gob-encoded (custom marshaler with registered types; binary node format only)
	nf  string
	kc  *keyCodec
	vc  *valCodec
	st  *recStore
	bad []string // decode problems met while projecting
}

// kid returns [] for the nil link and [term] otherwise.
func (p *projector) kid(name string) []term {
	if name == "" {
		return []term{}
	}
	return []term{p.node(name)}
}

func (p *projector) node(name string) term {
	b, ok := p.st.get(name)
	if !ok {
		p.bad = append(p.bad, "missing "+name)
		return missingTerm
	}
	rn, err := decodeNode(p.nf, b)
	if err != nil {
		p.bad = append(p.bad, fmt.Sprintf("undecodable %s: %v", name, err))
		return missingTerm
	}
	t := term{K: []int{}, V: []int{}, C: [][]term{}}
	for i := range rn.Keys {
		t.K = append(t.K, p.keyRank(rn.Keys[i]))
	}
	for i := range rn.Vals {
		t.V = append(t.V, p.valRank(rn.Vals[i]))
	}
	for _, l := range rn.Links {
		t.C = append(t.C, p.kid(l))
	}
	return t
}

func gobMarshal(v interface{}) ([]byte, error) {
	var buf bytes.Buffer
	err := gob.NewEncoder(&buf).Encode(v)
	return buf.Bytes(), err
}

func gobUnmarshal(b []byte, v interface{}) error {
	return gob.NewDecoder(bytes.NewReader(b)).Decode(v)
}

func (p *projector) keyRank(raw []byte) int {
	if !p.gob {
		return p.kc.RankFromJSON(raw)
	}
	v := reflect.New(reflect.TypeOf(p.kc.zero))
	if err := gobUnmarshal(raw, v.Interface()); err != nil {
		return -1
	}
	return p.kc.Rank(v.Elem().Interface())
}

func (p *projector) valRank(raw []byte) int {
	if !p.gob {
		return p.vc.RankFromJSON(raw)
	}
	v := reflect.New(reflect.TypeOf(p.vc.zero))
	if err := gobUnmarshal(raw, v.Interface()); err != nil {
		return -1
	}
	return p.vc.Rank(v.Elem().Interface())
}

// reach returns the set of names reachable from a root link.
func (p *projector) reach(name string, acc map[string]bool) {
	if name == "" || acc[name] {
		return
	}
	acc[name] = true
	b, ok := p.st.get(name)
	if !ok {
		return
	}
	rn, err := decodeNode(p.nf, b)
	if err != nil {
		return
	}
	for _, l := range rn.Links {
		p.reach(l, acc)
	}
}
