SPECIFICATION Spec
CONSTANTS
 NK = 3
 NV = 2
 MaxLayer = 2
 MaxH = 2
 PushNilRoot = FALSE
 MaxG = 0
 Swallow = FALSE
 Stepwise = FALSE
INVARIANTS EntryPrefix EntryDiffExact LinksWithin LinksComplete ReadBound SameNoLoads
CHECK_DEADLOCK FALSE
