SPECIFICATION Spec
CONSTANTS
 Writers = {1, 2, 3}
 L = 3
 MaxCrashes = 2
 Protocol = "rename"
INVARIANTS LoadIsCompleteOrMissing SuccessMeansComplete RestoreRepairs
CHECK_DEADLOCK FALSE
