------------------------------- MODULE Mast -------------------------------
(* State machine of jrhy/mast at the level of the public API: tree handles
   (each a mutable reference to a version), the content-addressed store and
   retained roots.  One action per public call; the bodies are the step
   functions Do* below, which TraceMast.tla reuses unchanged to validate
   recorded executions of the real code.

   A handle record:
     root    kid term with residency flags (MastCore)
     height, size
     base    the version the handle was loaded from / last persisted as:
             [root |-> stripped kid, height |-> Nat]
     mods    keys whose presence or value was changed by a successful call
             since base
     stable  no step since base changed the height (C13's antecedent)       *)
EXTENDS MastSteps

CONSTANTS NK,        \* keys are ranks 1..NK
          NV,        \* values are ranks 1..NV
          BF,        \* branch factor
          MaxLayer,  \* layers are chosen from 0..MaxLayer, all assignments
          NH,        \* number of handle slots
          MaxRoots,  \* retained roots
          MaxMods,   \* bound on |mods| between persists (0 = unbounded)
          TrackStore,\* FALSE: the store variable is not accumulated (single-handle configs)
          AsIsShrink \* TRUE: the pinned release's shrink rule (non-vacuity run)

Keys == 1..NK
Vals == 1..NV
H == 1..NH
HiKey == NK + 1

(* ------------------------------------------------------------------ *)
VARIABLES layer, hd, model, store, roots, io
vars == <<layer, hd, model, store, roots, io>>

NoIO == [op |-> "none", h |-> 0, n |-> 0, ht |-> 0, hs |-> TRUE]

Init == /\ layer \in [Keys -> 0..MaxLayer]
        /\ hd = [h \in H |-> IF h = 1 THEN Fresh ELSE Dead]
        /\ model = [h \in H |-> <<>>]
        /\ store = {} /\ roots = {} /\ io = NoIO

ModsOK(h, key) == MaxMods = 0 \/ Cardinality(hd[h].mods \cup {key}) <= MaxMods

Insert(h, key, val) ==
  /\ hd[h].live /\ ModsOK(h, key)
  /\ LET present == key \in DOMAIN model[h]
         r == DoInsert(hd[h], present, present /\ model[h][key] = val, key, val, layer, BF)
     IN /\ hd' = [hd EXCEPT ![h] = r.hr]
        /\ model' = [model EXCEPT ![h] = MapPut(@, key, val)]
        /\ io' = [NoIO EXCEPT !.op = r.kind, !.h = h, !.n = Cardinality(r.ld), !.ht = hd[h].height, !.hs = r.hs]
  /\ UNCHANGED <<layer, store, roots>>

Delete(h, key) ==
  /\ hd[h].live /\ key \in DOMAIN model[h] /\ ModsOK(h, key)
  /\ LET r == DoDelete(hd[h], key, layer, BF, AsIsShrink)
     IN /\ r.ok
        /\ hd' = [hd EXCEPT ![h] = r.hr]
        /\ model' = [model EXCEPT ![h] = MapDel(@, key)]
        /\ io' = [NoIO EXCEPT !.op = "del", !.h = h, !.n = Cardinality(r.ld), !.ht = hd[h].height, !.hs = r.hs]
  /\ UNCHANGED <<layer, store, roots>>

FailedDelete(h, key) ==      \* absent key (wrong value reads the same path)
  /\ hd[h].live /\ key \notin DOMAIN model[h]
  /\ LET r == DoFailedDelete(hd[h], key, layer)
     IN io' = [NoIO EXCEPT !.op = "nodel", !.h = h, !.n = Cardinality(r.ld), !.ht = hd[h].height]
  /\ UNCHANGED <<layer, hd, model, store, roots>>

Get(h, key) ==
  /\ hd[h].live
  /\ LET r == DoGet(hd[h], key, layer)
     IN /\ r.ok = (key \in DOMAIN model[h])
        /\ r.ok => r.v = model[h][key]
        /\ io' = [NoIO EXCEPT !.op = "get", !.h = h, !.n = Cardinality(r.ld), !.ht = hd[h].height]
  /\ UNCHANGED <<layer, hd, model, store, roots>>

Clone(h, g) ==
  /\ hd[h].live /\ ~hd[g].live
  /\ hd' = [hd EXCEPT ![g] = hd[h]]
  /\ model' = [model EXCEPT ![g] = model[h]]
  /\ io' = [NoIO EXCEPT !.op = "clone", !.h = h]
  /\ UNCHANGED <<layer, store, roots>>

MakeRoot(h) ==
  /\ hd[h].live
  /\ LET r == DoMakeRoot(hd[h])
         rec == [root |-> r.root.root, height |-> r.root.height, size |-> r.root.size, model |-> model[h]]
     IN /\ hd' = [hd EXCEPT ![h] = r.hr]
        /\ store' = IF TrackStore THEN store \cup r.w ELSE store
        /\ roots' = IF Cardinality(roots \cup {rec}) <= MaxRoots THEN roots \cup {rec} ELSE roots
        /\ io' = [NoIO EXCEPT !.op = "root", !.h = h, !.ht = hd[h].height]
  /\ UNCHANGED <<layer, model>>

Load(g, r) ==
  /\ ~hd[g].live /\ r \in roots
  /\ hd' = [hd EXCEPT ![g] = DoLoad(r)]
  /\ model' = [model EXCEPT ![g] = r.model]
  /\ io' = [NoIO EXCEPT !.op = "load", !.h = g, !.n = Cardinality(Ld(Resident(r.root)))]
  /\ UNCHANGED <<layer, store, roots>>

New(h) ==
  /\ ~hd[h].live
  /\ hd' = [hd EXCEPT ![h] = Fresh] /\ model' = [model EXCEPT ![h] = <<>>]
  /\ io' = [NoIO EXCEPT !.op = "new", !.h = h]
  /\ UNCHANGED <<layer, store, roots>>

Drop(h) ==
  /\ hd[h].live /\ (roots # {} \/ Cardinality({g \in H : hd[g].live}) > 1)
  /\ hd' = [hd EXCEPT ![h] = Dead] /\ model' = [model EXCEPT ![h] = <<>>]
  /\ io' = [NoIO EXCEPT !.op = "drop", !.h = h]
  /\ UNCHANGED <<layer, store, roots>>

Next == \/ \E h \in H, key \in Keys, val \in Vals: Insert(h, key, val)
        \/ \E h \in H, key \in Keys: Delete(h, key) \/ FailedDelete(h, key) \/ Get(h, key)
        \/ \E h \in H: MakeRoot(h) \/ Drop(h) \/ New(h)
        \/ \E h, g \in H: Clone(h, g)
        \/ \E g \in H, r \in roots: Load(g, r)
Spec == Init /\ [][Next]_vars

(* ------------------------------ properties ------------------------------ *)
Live == {h \in H : hd[h].live}

\* C01
MapOK == \A h \in Live: Entries(hd[h].root) = SortedPairs(model[h]) /\ hd[h].size = Cardinality(DOMAIN model[h])
ReadOnlyIsStutter == [][io'.op \in {"get", "nodel", "noop"} => UNCHANGED <<hd, model, store, roots>>]_vars

\* C04: the tree is the unique canonical one, at the rule's height
HeightOK == \A h \in Live: hd[h].height = RuleHeight(DOMAIN model[h], layer, BF)
CanonOK == \A h \in Live: Strip(hd[h].root) = Canon(SortedPairs(model[h]), layer, hd[h].height)

\* C09 (written without Canon) and the lemma that the two characterisations agree
ShapeOK == \A h \in Live: Shape(Strip(hd[h].root), hd[h].height, layer, HiKey)

\* C02 at the value level: an operation on one handle leaves every other handle's map, and every retained root, alone
Immutability == [][/\ \A h \in H: (h # io'.h /\ ~(io'.op = "clone")) => model'[h] = model[h] /\ hd'[h] = hd[h]
                   /\ roots \subseteq roots']_vars

\* C03/C05 (atomic MakeRoot): every retained root is completely in the store
RootsComplete == TrackStore => \A r \in roots: Reach(r.root) \subseteq store
RootsFaithful == \A r \in roots: Entries(r.root) = SortedPairs(r.model) /\ r.size = Cardinality(DOMAIN r.model)

\* C16: distinct persisted nodes opened by the last operation
PathReadsOn(x) == /\ x.op \in {"get", "noop", "upd", "nodel"} => x.n <= x.ht + 1
                  /\ (x.op \in {"ins", "del"} /\ x.hs) => x.n <= 2 * (x.ht + 1)
                  /\ x.op \in {"load", "clone"} => x.n <= 1
PathReads == [][PathReadsOn(io')]_vars

\* C13, evaluated in every state on the set a MakeRoot issued now would write
Incremental ==
  \A h \in Live:
    LET W == MemNodes(hd[h].root)
        BaseNodes == Ranges(hd[h].base.root, 0, HiKey)
    IN /\ W \subseteq Reach(hd[h].root)
       /\ hd[h].mods = {} => (W = {} /\ Strip(hd[h].root) = hd[h].base.root)
       /\ (hd[h].stable /\ hd[h].mods # {}) =>
             /\ Cardinality(W) <= (2 * hd[h].height + 2) * Cardinality(hd[h].mods)
             /\ \A b \in BaseNodes: b[1] \in W => \E k \in hd[h].mods: b[2] <= k /\ k <= b[3]
\* "clean only if unchanged": IsDirty() = FALSE is modelled as "nothing would be written and the top is not nil-after-emptying"
CleanMeansUnchanged ==
  \A h \in Live: (hd[h].root # <<>> /\ ~hd[h].root[1].m) => Strip(hd[h].root) = hd[h].base.root

=============================================================================
