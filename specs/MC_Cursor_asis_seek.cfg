SPECIFICATION Spec
CONSTANTS
 NK = 3
 MaxLayer = 2
 MaxH = 2
 AsIs = TRUE
INVARIANTS SeekOK
CHECK_DEADLOCK FALSE
