----------------------------- MODULE TraceMast -----------------------------
(* Validation of executions recorded from the real jrhy/mast (harness family
   "map") against the specification.  One ndjson line per public call, with
   the call's result and the projected abstract state of EVERY live handle and
   EVERY retained root after the call.

   The trace specification is TOTAL: it never refuses an event.  Each action
   applies the step function of MastSteps (the same ones Mast.tla model-checks)
   and evaluates, on the logged observation, the predicates that make up the
   listed properties; a failed predicate is recorded in `viol` with the
   property it belongs to, and the rest of that history (up to the next
   "reset") is skipped because the specification state no longer describes the
   implementation.  The runner reads the REPORT line printed in the last state.

   Attribution.  C01: result/contents/size of the handle the call acted on.
   C02: a handle or retained version the call did NOT act on changed.
   C04/C09/C05/C13: evaluated at MakeRoot / LoadMast events on the decoded
   persisted tree.  C16: distinct Load calls of the operation against the
   stated bounds, with the heights the code itself reports.                *)
EXTENDS MastSteps, Json

Trace == ndJsonDeserialize("trace.ndjson")
MaxH == 5
HS == 1..MaxH

VARIABLES l, cfg, th, cur, rts, names, viol, bad, stat
tvars == <<l, cfg, th, cur, rts, names, viol, bad, stat>>

NoCfg == [id |-> 0, bf |-> 2, nk |-> 0, nv |-> 0, kt |-> "", vt |-> "", nf |-> "", cache |-> "", layers |-> <<>>, src |-> ""]
DeadT == [hr |-> Dead, model |-> <<>>, bmodel |-> <<>>, oh |-> 0, taint |-> FALSE]
FreshT == [hr |-> Fresh, model |-> <<>>, bmodel |-> <<>>, oh |-> 0, taint |-> FALSE]
TaintedT == [hr |-> Fresh, model |-> <<>>, bmodel |-> <<>>, oh |-> 0, taint |-> TRUE]
NoCur == [on |-> FALSE, valid |-> FALSE, ref |-> <<>>]
Stat0 == [events |-> 0, traces |-> 0, ins |-> 0, upd |-> 0, noop |-> 0, del |-> 0, nodel |-> 0, get |-> 0, iter |-> 0,
          clone |-> 0, cursor |-> 0, cwalk |-> 0, root |-> 0, rootdirty |-> 0, load |-> 0, grow |-> 0, shrink |-> 0,
          froot |-> 0, skipped |-> 0, wexact |-> 0, wless |-> 0, wother |-> 0, ldexact |-> 0, ldother |-> 0, maxheight |-> 0, robs |-> 0, obs |-> 0]

TInit == /\ l = 1 /\ cfg = NoCfg
         /\ th = [h \in HS |-> DeadT] /\ cur = [h \in HS |-> NoCur]
         /\ rts = {} /\ names = {} /\ viol = {} /\ bad = FALSE /\ stat = Stat0

Ev == Trace[l]
Layer == cfg.layers
Bf == cfg.bf
HiKey == cfg.nk + 1
NfName == IF cfg.nf = "bin" THEN "v1.1.5binary" ELSE "v1marshaler"

V(p, why, h) == [p |-> p, l |-> l, tr |-> cfg.id, why |-> why, h |-> h, r |-> 0]
Bump(s, f) == [s EXCEPT ![f] = @ + 1]

ObsIdx(e, h) == {i \in DOMAIN e.obs : e.obs[i].h = h}
HasObs(e, h) == ObsIdx(e, h) # {}
ObsOf(e, h) == e.obs[CHOOSE i \in ObsIdx(e, h) : TRUE]

(* observation of every live handle after the step; actors = handles the call acted on *)
ObsViol(t2, e, actors, pact) ==
  UNION { IF ~t2[h].hr.live \/ t2[h].taint THEN {}
          ELSE IF ~HasObs(e, h) THEN {V("C01", "live handle not observed", h)}
          ELSE LET o == ObsOf(e, h)
                   m == t2[h].model
                   wrong == o.err # "" \/ o.ents # SortedPairs(m) \/ o.size # Cardinality(DOMAIN m)
               IN (IF wrong THEN {V(IF h \in actors THEN pact ELSE "C02",
                                    IF o.err # "" THEN "iteration fails" ELSE "contents or size differ from the map model", h)}
                   ELSE {})
                  \cup (IF ~wrong /\ ~o.dirty /\ m # t2[h].bmodel
                        THEN {V("C13", "reports clean although contents differ from the base version", h)} ELSE {})
        : h \in HS }

RootOf(id) == CHOOSE r \in rts : r.id = id
HasRoot(id) == \E r \in rts : r.id = id
RObsBad(ro, r) == ro.err # "" \/ ro.ents # SortedPairs(r.model) \/ ro.size # Cardinality(DOMAIN r.model)
RObsViol(rs, e) ==
  UNION { LET ro == e.robs[i] IN
          IF \E r \in rs : r.id = ro.r /\ r.ok /\ RObsBad(ro, r)
          THEN {[V("C02", "retained root no longer loads to the contents it was persisted with", 0) EXCEPT !.r = ro.r]} ELSE {}
        : i \in DOMAIN e.robs }

Heights(t2, e) == [h \in HS |-> IF t2[h].hr.live /\ HasObs(e, h) THEN [t2[h] EXCEPT !.oh = ObsOf(e, h).height] ELSE t2[h]]

LoadsViol(e, bound, what) == IF e.loads > bound THEN {V("C16", what, e.h)} ELSE {}

(* common tail of every action; pact = the property a wrong observation of the acted-on handle belongs to *)
FinishP(t2, cur2, rts2, names2, v, statf, pact) ==
  LET allv == v \cup ObsViol(t2, Ev, {Ev.h, Ev.g}, pact) \cup RObsViol(rts2, Ev)
              \* node objects in the shared cache stand for persisted (captured) nodes: none may change, whoever looks at it later
              \cup (IF Ev.cachemut > 0 THEN {V("C02", "a node object handed to the shared node cache was modified afterwards", 0)} ELSE {})
      \* what no longer describes the implementation is not judged any further: the handles a violation names are tainted,
      \* the retained roots it names are retired; every other handle and root of the history goes on being validated
      th2 == Heights(t2, Ev)
      hit == {x.h : x \in allv} \cap HS
      badroots == {x.r : x \in allv}
  IN /\ th' = [h \in HS |-> IF h \in hit THEN [th2[h] EXCEPT !.taint = TRUE] ELSE th2[h]]
     /\ cur' = cur2 /\ names' = names2
     /\ rts' = {IF x.id \in badroots THEN [x EXCEPT !.ok = FALSE] ELSE x : x \in rts2}
     /\ viol' = viol \cup allv
     /\ bad' = FALSE
     /\ stat' = [Bump(Bump(statf, "events"), "obs") EXCEPT !.robs = @ + Len(Ev.robs)]
     /\ l' = l + 1 /\ UNCHANGED cfg

Finish(t2, cur2, rts2, names2, v, statf) == FinishP(t2, cur2, rts2, names2, v, statf, "C01")

Is(op) == l <= Len(Trace) /\ Ev.op = op

TReset == /\ Is("reset")
          /\ cfg' = Ev.cfg
          /\ th' = [h \in HS |-> DeadT] /\ cur' = [h \in HS |-> NoCur]
          /\ rts' = {} /\ names' = {} /\ bad' = FALSE
          /\ stat' = Bump(stat, "traces")
          /\ l' = l + 1 /\ UNCHANGED viol

TSkip == /\ l <= Len(Trace) /\ Ev.op # "reset" /\ bad
         /\ stat' = Bump(stat, "skipped")
         /\ l' = l + 1 /\ UNCHANGED <<cfg, th, cur, rts, names, viol, bad>>

(* MakeRoot: C04 C09 C05 C13 on the decoded persisted tree *)
RECURSIVE HasMissing(_)
HasMissing(kid) == kid # <<>> /\ (kid[1].k = <<-1>> \/ \E i \in DOMAIN kid[1].c : HasMissing(kid[1].c[i]))

\* every key of the decoded tree is a key of the universe (a rank outside 1..nk means the harness could not decode it back)
RECURSIVE KeysKnown(_)
KeysKnown(kid) == kid = <<>> \/ (/\ \A i \in DOMAIN kid[1].k : kid[1].k[i] \in 1..cfg.nk
                                  /\ \A j \in DOMAIN kid[1].c : KeysKnown(kid[1].c[j]))

(* What C09 and C04 say about a persisted tree taken by itself (no reference to the history that led to it): they are judged
   even when the handle was tainted by an earlier violation of another property - a persisted root is a persisted root.      *)
Malformed(e) == V("C09", "a persisted node does not have as many values as keys and one more child slot", e.h)
RootIntrinsic(e) ==
  IF e.res # "ok" \/ HasMissing(e.link) \/ ~KeysKnown(e.link) THEN {}
  ELSE IF ~WellFormed(e.link) THEN {Malformed(e)} ELSE
  LET es == Entries(e.link)
      shaped == Shape(e.link, e.rh, Layer, HiKey)
      ruleH == RuleHeight({es[i][1] : i \in DOMAIN es}, Layer, Bf)
  IN (IF ~shaped THEN {V("C09", "persisted tree violates the shape invariants", e.h),
                       V("C04", "persisted tree is not the canonical tree of its entries", e.h)} ELSE {})
     \cup (IF e.rs # Len(es) THEN {V("C09", "recorded size differs from reachable entries", e.h)} ELSE {})
     \cup (IF shaped /\ e.rh # ruleH THEN {V("C04", "persisted height differs from min(max layer, floor(log_bf(size-1)))", e.h)} ELSE {})
     \cup (IF shaped /\ e.rh = ruleH /\ e.link # Canon(es, Layer, ruleH) THEN {V("C04", "persisted tree is not the canonical tree of its entries", e.h)} ELSE {})

ActsOnHandle == Ev.op \in {"ins", "del", "get", "iter", "size", "clone", "cursor", "root", "froot", "drop"}
ActorTainted == ActsOnHandle /\ th[Ev.h].taint
Good(op) == Is(op) /\ ~bad /\ ~ActorTainted

(* a call on a handle that an earlier violation has tainted: not judged, only the bookkeeping of which slots are in use *)
TTainted == /\ l <= Len(Trace) /\ Ev.op # "reset" /\ ~bad /\ ActorTainted
            /\ LET th2 == IF Ev.op = "clone" /\ Ev.res = "ok" THEN [th EXCEPT ![Ev.g] = TaintedT]
                          ELSE IF Ev.op = "drop" THEN [th EXCEPT ![Ev.h] = DeadT] ELSE th
                   cur2 == IF Ev.op = "cursor" THEN [cur EXCEPT ![Ev.g] = NoCur] ELSE cur
               IN Finish(th2, cur2, rts, names, IF Ev.op = "root" THEN RootIntrinsic(Ev) ELSE {}, Bump(stat, "skipped"))

TNew == /\ Good("new")
        /\ LET v == IF Ev.res # "ok" THEN {V("C01", "opening an empty tree fails", Ev.h)} ELSE {}
           IN Finish([th EXCEPT ![Ev.h] = FreshT], cur, rts, names, v, stat)

TIns == /\ Good("ins")
        /\ LET t == th[Ev.h]
               present == Ev.k \in DOMAIN t.model
               r == DoInsert(t.hr, present, present /\ t.model[Ev.k] = Ev.v, Ev.k, Ev.v, Layer, Bf)
               oh2 == IF HasObs(Ev, Ev.h) THEN ObsOf(Ev, Ev.h).height ELSE t.oh
               hs == oh2 = t.oh
               t2 == [t EXCEPT !.hr = [r.hr EXCEPT !.stable = t.hr.stable /\ hs], !.model = MapPut(t.model, Ev.k, Ev.v)]
               v == (IF Ev.res # "ok" THEN {V("C01", "insert fails on a healthy store", Ev.h)} ELSE {})
                    \cup (IF r.kind \in {"noop", "upd"} THEN LoadsViol(Ev, t.oh + 1, "update reads more than height+1 nodes")
                          ELSE IF hs THEN LoadsViol(Ev, 2 * (t.oh + 1), "insert reads more than 2*(height+1) nodes") ELSE {})
               s1 == Bump(stat, r.kind)
               s2 == IF oh2 > t.oh THEN Bump(s1, "grow") ELSE s1
               s3 == IF Ev.cached \/ cfg.cache # "none" THEN s2
                     ELSE IF Ev.dloads = Cardinality(r.ld) THEN Bump(s2, "ldexact") ELSE Bump(s2, "ldother")
           IN Finish([th EXCEPT ![Ev.h] = t2], cur, rts, names, v, [s3 EXCEPT !.maxheight = IF oh2 > @ THEN oh2 ELSE @])

TDel == /\ Good("del")
        /\ LET t == th[Ev.h]
               should == Ev.k \in DOMAIN t.model /\ t.model[Ev.k] = Ev.v
               r == IF should THEN DoDelete(t.hr, Ev.k, Layer, Bf, FALSE) ELSE DoFailedDelete(t.hr, Ev.k, Layer)
               oh2 == IF HasObs(Ev, Ev.h) THEN ObsOf(Ev, Ev.h).height ELSE t.oh
               hs == oh2 = t.oh
               t2 == IF should THEN [t EXCEPT !.hr = [r.hr EXCEPT !.stable = t.hr.stable /\ hs], !.model = MapDel(t.model, Ev.k)]
                     ELSE t
               v == (IF Ev.res = "panic" THEN {V("C01", "delete panics", Ev.h)}
                     ELSE IF should /\ Ev.res # "ok" THEN {V("C01", "delete of a present entry fails", Ev.h)}
                     ELSE IF ~should /\ Ev.res = "ok" THEN {V("C01", "delete of an absent key or non-matching value succeeds", Ev.h)}
                     ELSE {})
                    \cup (IF hs THEN LoadsViol(Ev, 2 * (t.oh + 1), "delete reads more than 2*(height+1) nodes") ELSE {})
               s1 == Bump(stat, IF should THEN "del" ELSE "nodel")
               s2 == IF oh2 < t.oh THEN Bump(s1, "shrink") ELSE s1
               s3 == IF cfg.cache # "none" THEN s2
                     ELSE IF Ev.dloads = Cardinality(r.ld) THEN Bump(s2, "ldexact") ELSE Bump(s2, "ldother")
           IN Finish([th EXCEPT ![Ev.h] = t2], cur, rts, names, v, s3)

TGet == /\ Good("get")
        /\ LET t == th[Ev.h]
               present == Ev.k \in DOMAIN t.model
               v == (IF Ev.res # "ok" THEN {V("C01", "lookup fails on a healthy store", Ev.h)}
                     ELSE IF Ev.found # present THEN {V("C01", "lookup reports wrong presence", Ev.h)}
                     ELSE IF present /\ Ev.rv # t.model[Ev.k] THEN {V("C01", "lookup returns a value other than the last one written", Ev.h)}
                     ELSE {})
                    \cup LoadsViol(Ev, t.oh + 1, "lookup reads more than height+1 nodes")
           IN Finish(th, cur, rts, names, v, Bump(stat, "get"))

TIter == /\ Good("iter")
         /\ LET t == th[Ev.h]
                v == IF Ev.res # "ok" THEN {V("C01", "iteration fails on a healthy store", Ev.h)}
                     ELSE IF Ev.ents # SortedPairs(t.model) THEN {V("C01", "iteration does not yield the sorted entries", Ev.h)} ELSE {}
            IN Finish(th, cur, rts, names, v, Bump(stat, "iter"))

TSize == /\ Good("size")
         /\ LET t == th[Ev.h]
                v == IF Ev.rv # Cardinality(DOMAIN t.model) THEN {V("C01", "size differs from the number of live entries", Ev.h)} ELSE {}
            IN Finish(th, cur, rts, names, v, stat)

TClone == /\ Good("clone")
          /\ LET v == (IF Ev.res # "ok" THEN {V("C01", "clone fails on a healthy store", Ev.h)} ELSE {})
                      \cup LoadsViol(Ev, 1, "clone reads more than the top node")
             IN Finish([th EXCEPT ![Ev.g] = th[Ev.h]], cur, rts, names, v, Bump(stat, "clone"))

(* a cursor captures a version (implicit clone); it is walked once at capture (reference) and once later *)
TCursor == /\ Good("cursor")
           /\ LET t == th[Ev.h]
                  valid == Ev.res = "ok" /\ Ev.found /\ Ev.ents = SortedPairs(t.model)
                  v == IF Ev.res # "ok" THEN {V("C10", "opening a cursor fails", Ev.h)} ELSE {}
              IN Finish(th, [cur EXCEPT ![Ev.g] = [on |-> Ev.res = "ok", valid |-> valid, ref |-> Ev.ents]], rts, names, v, Bump(stat, "cursor"))

TCwalk == /\ Good("cwalk")
          /\ LET c == cur[Ev.g]
                 v == IF c.valid /\ (Ev.res # "ok" \/ Ev.ents # c.ref)
                      THEN {V("C02", "version captured by a cursor changed after later operations", Ev.g)} ELSE {}
             IN Finish(th, [cur EXCEPT ![Ev.g] = NoCur], rts, names, v, Bump(stat, "cwalk"))

TRoot == /\ Good("root")
         /\ LET t == th[Ev.h]
                r == DoMakeRoot(t.hr)
                es == SortedPairs(t.model)
                ruleH == RuleHeight(DOMAIN t.model, Layer, Bf)
                W == ToSet(Ev.w)
                base == t.hr.base
                mods == t.hr.mods
                garbled == ~HasMissing(Ev.link) /\ ~(KeysKnown(Ev.link) /\ \A i \in DOMAIN Ev.w : KeysKnown(<<Ev.w[i]>>))
                malformed == ~HasMissing(Ev.link) /\ ~garbled /\ ~(WellFormed(Ev.link) /\ \A i \in DOMAIN Ev.w : WellFormed(<<Ev.w[i]>>))
                missing == HasMissing(Ev.link) \/ garbled \/ malformed
                newroot == [id |-> Ev.r, root |-> Ev.link, height |-> Ev.rh, size |-> Ev.rs, model |-> t.model,
                            ok |-> ~missing /\ \E i \in DOMAIN Ev.robs : Ev.robs[i].r = Ev.r /\
                                     ~RObsBad(Ev.robs[i], [model |-> t.model])]
                vfail == IF Ev.res # "ok" THEN {V("C03", "persisting fails on a healthy store", Ev.h)} ELSE {}
                vmiss == IF Ev.res = "ok" /\ garbled THEN {V("C05", "the persisted tree does not decode back to keys that were inserted (in the tree's own node format)", Ev.h)}
                         ELSE IF Ev.res = "ok" /\ malformed THEN {Malformed(Ev)}
                         ELSE IF Ev.res = "ok" /\ missing THEN {V("C03", "returned root reaches a node that is not in the store", Ev.h)} ELSE {}
                v04 == IF Ev.res # "ok" \/ missing THEN {} ELSE
                       (IF Ev.rh # ruleH THEN {V("C04", "persisted height differs from min(max layer, floor(log_bf(size-1)))", Ev.h)} ELSE {})
                       \cup (IF Ev.rs # Len(es) THEN {V("C04", "persisted size differs from the number of entries", Ev.h)} ELSE {})
                       \cup (IF Ev.rh = ruleH /\ Ev.link # Canon(es, Layer, ruleH) THEN {V("C04", "persisted tree is not the canonical tree of its entries", Ev.h)} ELSE {})
                       \cup (IF \E p \in names : p[1] = Ev.link /\ p[2] # Ev.name THEN {V("C04", "equal trees persisted under different root names", Ev.h)} ELSE {})
                v09 == IF Ev.res # "ok" \/ missing THEN {} ELSE
                       (IF ~Shape(Ev.link, Ev.rh, Layer, HiKey) THEN {V("C09", "persisted tree violates the shape invariants", Ev.h)} ELSE {})
                       \cup (IF Ev.rs # Len(Entries(Ev.link)) THEN {V("C09", "recorded size differs from reachable entries", Ev.h)} ELSE {})
                v05 == IF Ev.res # "ok" THEN {} ELSE
                       (IF Ev.rbf # Bf \/ Ev.rnf # NfName THEN {V("C05", "root record carries a different branch factor or node format", Ev.h)} ELSE {})
                       \cup (IF ~missing /\ ~newroot.ok THEN {V("C05", "loading the returned root does not give back the entries", Ev.h)} ELSE {})
                \* C08 (its consequence for versions): one root name, one contents
                v08 == (IF Ev.res = "ok" /\ \E p \in names : p[2] = Ev.name /\ p[3] # es
                        THEN {V("C08", "the same root name is returned for versions with different contents", Ev.h)} ELSE {})
                       \* ... the tree that the store holds under the returned name is itself a version with that root name
                       \cup (IF Ev.res = "ok" /\ ~missing /\ Entries(Ev.link) # es
                             THEN {V("C08", "the root name returned for a version is the name of a stored tree with different contents", Ev.h)} ELSE {})
                v13 == IF Ev.res # "ok" \/ missing THEN {} ELSE
                       (IF ~(W \subseteq Reach(Ev.link)) THEN {V("C13", "writes a node that is not reachable from the returned root", Ev.h)} ELSE {})
                       \cup (IF mods = {} /\ (W # {} \/ Ev.link # base.root) THEN {V("C13", "nothing modified, yet nodes written or a different root returned", Ev.h)} ELSE {})
                       \cup (IF mods # {} /\ t.hr.stable /\ Cardinality(W) > (2 * Ev.rh + 2) * Cardinality(mods)
                             THEN {V("C13", "more than 2*height+2 nodes written per modified key", Ev.h)} ELSE {})
                       \cup (IF mods # {} /\ t.hr.stable /\
                                \E b \in Ranges(base.root, 0, HiKey) : b[1] \in W /\ ~\E k \in mods : b[2] <= k /\ k <= b[3]
                             THEN {V("C13", "rewrites a node of the base version whose key range holds no modified key", Ev.h)} ELSE {})
                t2 == [t EXCEPT !.hr = [r.hr EXCEPT !.root = Resident(Ev.link), !.base = [root |-> Ev.link, height |-> Ev.rh]],
                                !.bmodel = t.model]
                predW == r.w
                s1 == Bump(stat, "root")
                s2 == IF mods # {} THEN Bump(s1, "rootdirty") ELSE s1
                s3 == IF W = predW THEN Bump(s2, "wexact") ELSE IF W \subseteq predW THEN Bump(s2, "wless") ELSE Bump(s2, "wother")
            IN IF Ev.res = "ok"
               THEN Finish([th EXCEPT ![Ev.h] = t2], cur, rts \cup {newroot}, names \cup {<<Ev.link, Ev.name, es>>},
                           vmiss \cup v04 \cup v09 \cup v05 \cup v08 \cup v13, s3)
               ELSE Finish(th, cur, rts, names, vfail, s1)

(* a MakeRoot during which the harness made Store calls fail, and which returned the error: the handle and every other handle and
   root are as they were (they are all re-observed, and the node objects in the shared cache re-examined, as after every call) *)
TFRoot == /\ Good("froot")
          /\ Finish(th, cur, rts, names, {}, Bump(stat, "froot"))

TLoad == /\ Good("load")
         /\ IF ~HasRoot(Ev.r) \/ ~RootOf(Ev.r).ok
            THEN \* the root was already reported at the time it was made (or was made by a tainted handle): the tree loaded from
                 \* it is not judged
                 Finish(IF Ev.res = "ok" THEN [th EXCEPT ![Ev.g] = TaintedT] ELSE th, cur, rts, names, {}, Bump(stat, "skipped"))
            ELSE LET r == RootOf(Ev.r)
                     t2 == [hr |-> DoLoad(r), model |-> r.model, bmodel |-> r.model, oh |-> r.height, taint |-> FALSE]
                     o == ObsOf(Ev, Ev.g)
                     viaCache == Ev.cached /\ cfg.cache # "none"
                     differs == HasObs(Ev, Ev.g) /\ (o.err # "" \/ o.ents # SortedPairs(r.model) \/ o.size # r.size \/ o.height # r.height)
                     v == IF Ev.res # "ok" THEN {V("C05", "loading a root returned by MakeRoot fails", Ev.g)}
                          ELSE (IF differs THEN {V("C05", "reloaded tree differs in entries, size or height", Ev.g)} ELSE {})
                               \* ... and when the store still holds the version but the tree came through the shared cache, the captured version changed (C02)
                               \cup (IF differs /\ viaCache THEN {V("C02", "a version loaded through the shared cache differs from what was persisted", Ev.g)} ELSE {})
                               \cup LoadsViol(Ev, 1, "opening a version reads more than its top node")
                     \* a tree loaded through the shared cache that differs although the store still holds the version: the
                     \* captured version changed as seen through the cache (C02); otherwise persist->load is not the identity (C05)
                 IN IF Ev.res = "ok" THEN FinishP([th EXCEPT ![Ev.g] = t2], cur, rts, names, v, Bump(stat, "load"), "C05")
                    ELSE Finish(th, cur, rts, names, v, Bump(stat, "load"))

(* a handle taken over from outside the history (race family): a persisted version given by its decoded tree and its entries *)
PairsToMap(ps) == [k \in {ps[i][1] : i \in DOMAIN ps} |-> ps[CHOOSE i \in DOMAIN ps : ps[i][1] = k][2]]
TAdopt == /\ Good("adopt")
          /\ LET r == [root |-> Ev.link, height |-> Ev.rh, size |-> Ev.rs, model |-> PairsToMap(Ev.ents)]
                 t2 == [hr |-> DoLoad(r), model |-> r.model, bmodel |-> r.model, oh |-> r.height, taint |-> FALSE]
             IN Finish([th EXCEPT ![Ev.h] = t2], cur, rts, names, {}, stat)

TDrop == /\ Good("drop")
         /\ Finish([th EXCEPT ![Ev.h] = DeadT], cur, rts, names, {}, stat)

TNext == TReset \/ TSkip \/ TTainted \/ TNew \/ TIns \/ TDel \/ TGet \/ TIter \/ TSize \/ TClone \/ TCursor \/ TCwalk \/ TRoot \/ TFRoot \/ TLoad \/ TDrop \/ TAdopt
TSpec == TInit /\ [][TNext]_tvars

Report == (l = Len(Trace) + 1) => PrintT(<<"REPORT", ToJson([viol |-> viol, stat |-> stat, consumed |-> l - 1])>>)
=============================================================================
