SPECIFICATION Spec
CONSTANTS
 NK = 3
 MaxLayer = 2
 MaxH = 2
 Restore = TRUE
 AsIs = TRUE
INVARIANTS NoFailure Agrees
CHECK_DEADLOCK FALSE
