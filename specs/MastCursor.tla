----------------------------- MODULE MastCursor -----------------------------
(* Exhaustive design-level model of cursor navigation and SeekIter: every
   tree over the bounded universe (contents x layer assignment x height x
   the two forms of an empty tree), every starting move (Min, Max, Ceil of
   every probe), then every sequence of Forward/Backward (the state is tree x
   path, so the closure is finite); SeekIter for every probe of every layer. *)
EXTENDS MastCursorOps

CONSTANTS NK, MaxLayer, MaxH, AsIs, Restore
Keys == 1..NK

VARIABLES layer, keys, h, ph, path, pos, phase, bad
vars == <<layer, keys, h, ph, path, pos, phase, bad>>

S == LET ks == SetToSortSeq(keys, <) IN [i \in 1..Len(ks) |-> <<ks[i], ks[i] + 100>>]
Tree == Canon(S, layer, h)

Init == /\ layer \in [Keys -> 0..MaxLayer] /\ keys \in SUBSET Keys /\ h \in 0..MaxH
        /\ ph \in BOOLEAN /\ (keys # {} => ~ph)
        /\ path = <<>> /\ pos = 0 /\ phase = "start" /\ bad = ""

Apply(r, newpos) == /\ path' = r.p /\ bad' = r.bad /\ pos' = newpos /\ phase' = "walk" /\ UNCHANGED <<layer, keys, h, ph>>

Start == /\ phase = "start"
         /\ \/ Apply(Min_(Open(Tree, ph)), Norm(S, 1))
            \/ Apply(Max_(Open(Tree, ph), AsIs), Norm(S, Len(S)))
            \/ \E p \in 0..NK+1: Apply(Ceil_(Open(Tree, ph), p, AsIs), CeilPos(S, p))
Walk == /\ phase = "walk" /\ bad = ""
        /\ \/ Apply(Forward_(path), MovePos(S, pos, "F"))
           \/ Apply(Backward_(path, AsIs), MovePos(S, pos, "B"))
Next == Start \/ Walk
Spec == Init /\ [][Next]_vars

\* C10: no call fails or panics, and Get agrees with the sorted sequence after every sequence of moves
NoFailure == bad = ""
Agrees == (phase = "walk" /\ bad = "") => Get_(path) = At(S, pos)
\* C12 for navigation: whatever Load fails inside a Forward / Backward, making the same call again on the same cursor gives the
\* normal result (checked in every reachable cursor position, for every position of the failing Load)
RetrySafe == (phase = "walk" /\ bad = "") =>
               \A f \in 0..MaxH+1 :
                  LET r == ForwardF(path, f, Restore)  b == BackwardF(path, f, Restore)
                  IN /\ (r.bad = "err" => Forward_(r.p) = Forward_(path))
                     /\ (b.bad = "err" => Backward_(b.p, FALSE) = Backward_(path, FALSE))
\* C10, second half: SeekIter(p) yields exactly the entries >= p, ascending, each once (hence every prefix of it when the
\* callback signals done) -- a state predicate of the tree alone, evaluated in the initial states
SeekOK == phase = "start" =>
            \A p \in 0..NK+1 : \A pl \in 0..MaxLayer :
               (IF AsIs THEN SeekIterAsIs(Tree, h, IF p \in Keys THEN layer[p] ELSE pl, p) ELSE SeekIter_(Tree, p)) = From(S, p)
=============================================================================
