----------------------------- MODULE TraceFormat -----------------------------
(* Format.tla IS the published format.  This module checks a file of events
   against it, input by input; the same module is run on
     (i)  the frozen reference vectors (vectors/format.ndjson, produced from
          the pinned release): pins the specification, and
     (ii) what the current code writes / returns for generated inputs: pins
          the code.
   Events:  node   every Persist.Store of the driven trees: the bytes written and the abstract node decoded from them
            layer  DefaultLayer(key, bf) for generated keys of every built-in type
            order  DefaultKeyCompare(a, b)
            defaults  NewRoot(nil / zero options), and the node format a root record without NodeFormat loads as *)
EXTENDS Format, Json
Trace == ndJsonDeserialize("trace.ndjson")
VARIABLES l, viol, stat
tvars == <<l, viol, stat>>
Stat0 == [events |-> 0, nodes |-> 0, bin |-> 0, v1 |-> 0, inner |-> 0, leaves |-> 0, layers |-> 0, highlayers |-> 0, orders |-> 0, defaults |-> 0, maxlayer |-> 0]
TInit == l = 1 /\ viol = {} /\ stat = Stat0
Ev == Trace[l]
V(why) == [p |-> "C14", l |-> l, tr |-> l, why |-> why, h |-> 0]
BumpIf(s, c, f) == IF c THEN [s EXCEPT ![f] = @ + 1] ELSE s

NodeViol(e) == (IF Encode(e) # e.bytes THEN {V("bytes written for a node differ from the published format")} ELSE {})
               \cup (IF ~e.hashok THEN {V("node name is not the unpadded URL-safe base64 of the BLAKE2b-256 digest of its bytes")} ELSE {})
LayerViol(e) == IF (IF e.kt = "int" THEN BigLayer(e.mag, e.bf, 0) ELSE BlobLayer(e.key, e.bf)) # e.layer THEN {V("layer of a key differs from the published layer function")} ELSE {}
WideCmp(e) == IF e.asign # e.bsign THEN (IF e.asign < e.bsign THEN -1 ELSE 1)
              ELSE IF e.asign >= 0 THEN BytesCmp(e.amag, e.bmag) ELSE BytesCmp(e.bmag, e.amag)
OrderViol(e) == IF e.res # "ok" \/ (IF e.wide THEN WideCmp(e) ELSE KeyCmp(e.kt, e.a, e.b)) # e.cmp THEN {V("default key order differs from the published order")} ELSE {}
DefaultsViol(e) == IF e.bf # DefaultBranchFactor \/ e.nf # DefaultNodeFormat \/ e.legacy # LegacyNodeFormat \/ e.size # 0 \/ e.height # 0 \/ e.haslink
                   THEN {V("defaults of a new tree differ from branch factor 16 / v1.1.5binary / empty")} ELSE {}

TStep == /\ l <= Len(Trace)
         /\ LET e == Ev
                v == CASE e.op = "node" -> NodeViol(e) [] e.op = "layer" -> LayerViol(e) [] e.op = "order" -> OrderViol(e) [] e.op = "defaults" -> DefaultsViol(e)
                s1 == BumpIf(BumpIf(BumpIf(BumpIf([stat EXCEPT !.events = @ + 1], e.op = "node", "nodes"), e.op = "layer", "layers"), e.op = "order", "orders"), e.op = "defaults", "defaults")
                s2 == IF e.op = "node" THEN BumpIf(BumpIf(BumpIf(BumpIf(s1, e.nf = "bin", "bin"), e.nf = "v1", "v1"), ~AllNil(e.links), "inner"), AllNil(e.links), "leaves") ELSE s1
                s3 == IF e.op = "layer" THEN [BumpIf(s2, e.layer > 0, "highlayers") EXCEPT !.maxlayer = IF e.layer > @ THEN e.layer ELSE @] ELSE s2
            IN viol' = viol \cup v /\ stat' = s3
         /\ l' = l + 1
TSpec == TInit /\ [][TStep]_tvars
Report == (l = Len(Trace) + 1) => PrintT(<<"REPORT", ToJson([viol |-> viol, stat |-> stat, consumed |-> l - 1])>>)
=============================================================================
