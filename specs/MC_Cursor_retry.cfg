SPECIFICATION Spec
CONSTANTS
 NK = 4
 MaxLayer = 2
 MaxH = 2
 Restore = TRUE
 AsIs = FALSE
INVARIANTS NoFailure Agrees RetrySafe
CHECK_DEADLOCK FALSE
