SPECIFICATION Spec
CONSTANTS
 NK = 4
 NV = 2
 MaxLayer = 2
 MaxH = 2
 PushNilRoot = FALSE
 Stepwise = FALSE
INVARIANTS EntryPrefix EntryDiffExact LinksWithin LinksComplete ReadBound SameNoLoads
CHECK_DEADLOCK FALSE
