SPECIFICATION Spec
CONSTANTS
 N = 3
 GateSize = 2
 MaxFailures = 2
 MaxAttempts = 3
 Variant = "commit"
 CleanSet = {}
 UseCache = TRUE
 ForeignCached = {}
 CacheKeyIgnoresPrefix = FALSE
 WithReader = TRUE
INVARIANTS PublishedObjectsAreFrozen
CHECK_DEADLOCK FALSE
