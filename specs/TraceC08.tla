------------------------------ MODULE TraceC08 ------------------------------
(* C08 over every Persist.Store call of every driven history.  Within one
   configuration (key/value types, format, branch factor, key universe: `ns`)
   the specification learns three relations from the events and requires them
   to be functions:
     name   |-> bytes      a name is never written with different bytes
     node   |-> bytes      the bytes are a function of the node's entries and child names alone
                            (whatever history, residency, clone or cache produced the node)
     bytes  |-> node       different contents never share bytes (hence names)
   and that every name is the digest of exactly the bytes written under it
   (recomputed by the harness's independent BLAKE2b-256 / base64url).
   `bdig` stands for the bytes (their digest by that independent code).     *)
EXTENDS Integers, Sequences, FiniteSets, TLC, Json
Trace == ndJsonDeserialize("trace.ndjson")
VARIABLES l, ns, byName, byNode, byBytes, viol, stat
tvars == <<l, ns, byName, byNode, byBytes, viol, stat>>
Stat0 == [events |-> 0, namespaces |-> 0, distinct_nodes |-> 0, rewrites |-> 0, same_node_again |-> 0, inner |-> 0]
TInit == l = 1 /\ ns = "" /\ byName = <<>> /\ byNode = <<>> /\ byBytes = <<>> /\ viol = {} /\ stat = Stat0
Ev == Trace[l]
V(why) == [p |-> "C08", l |-> l, tr |-> Ev.tr, why |-> why, h |-> 0]
Put(f, k, v) == [x \in DOMAIN f \cup {k} |-> IF x = k THEN v ELSE f[x]]
TSt == /\ l <= Len(Trace)
       /\ LET e == Ev
              fresh == e.ns # ns
              bn == IF fresh THEN <<>> ELSE byName
              bo == IF fresh THEN <<>> ELSE byNode
              bb == IF fresh THEN <<>> ELSE byBytes
              v == (IF ~e.hashok THEN {V("a node is written under a name that is not the digest of its bytes")} ELSE {})
                   \cup (IF ~e.dec THEN {V("written bytes are not a node of the tree's format")} ELSE {})
                   \* the bytes are a function of the entries and child names alone: they are the one encoding the format gives them
                   \cup (IF e.dec /\ ~e.canon THEN {V("the bytes written are not the encoding the format gives the node's entries and child names (the same node has more than one encoding)")} ELSE {})
                   \cup (IF e.name \in DOMAIN bn /\ bn[e.name] # e.bdig THEN {V("the same name is written with different bytes")} ELSE {})
                   \cup (IF e.dec /\ e.node \in DOMAIN bo /\ bo[e.node] # e.bdig THEN {V("the same entries and child names are encoded to different bytes")} ELSE {})
                   \cup (IF e.dec /\ e.bdig \in DOMAIN bb /\ bb[e.bdig] # e.node THEN {V("different contents are written as the same bytes")} ELSE {})
          IN /\ ns' = e.ns
             /\ byName' = Put(bn, e.name, e.bdig)
             /\ byNode' = IF e.dec THEN Put(bo, e.node, e.bdig) ELSE bo
             /\ byBytes' = IF e.dec THEN Put(bb, e.bdig, e.node) ELSE bb
             /\ viol' = viol \cup v
             /\ stat' = [stat EXCEPT !.events = @ + 1, !.namespaces = @ + (IF fresh THEN 1 ELSE 0),
                                     !.distinct_nodes = @ + (IF e.dec /\ e.node \notin DOMAIN bo THEN 1 ELSE 0),
                                     !.rewrites = @ + (IF e.name \in DOMAIN bn THEN 1 ELSE 0),
                                     !.same_node_again = @ + (IF e.dec /\ e.node \in DOMAIN bo THEN 1 ELSE 0),
                                     !.inner = @ + (IF e.dec /\ \E i \in DOMAIN e.node.c : e.node.c[i] # "" THEN 1 ELSE 0)]
       /\ l' = l + 1
TSpec == TInit /\ [][TSt]_tvars
Report == (l = Len(Trace) + 1) => PrintT(<<"REPORT", ToJson([viol |-> viol, stat |-> stat, consumed |-> l - 1])>>)
=============================================================================
