------------------------------ MODULE MastGen ------------------------------
(* Behaviour generator: Mast.tla with a history variable.  TLC (-simulate, or
   bounded breadth-first search) prints every behaviour of length Depth as one
   JSON line: the layer assignment TLC chose (adversarial layers, replayed with
   the user-Key codec) and the operations with their arguments.  The harness
   replays them on the real code: sequentially through the map driver (every
   step validated again by TraceMast), and as per-handle programs run by
   concurrent goroutines under the race detector (C11).                     *)
EXTENDS Mast, Json
CONSTANT Depth
VARIABLE hist
gvars == <<vars, hist>>
Rec(op, h, g, k, v) == [op |-> op, h |-> h, g |-> g, k |-> k, v |-> v]
GInit == Init /\ hist = <<>>
GNext == /\ Len(hist) < Depth
         /\ \/ \E h \in H, k \in Keys, v \in Vals : Insert(h, k, v) /\ hist' = Append(hist, Rec("ins", h, 0, k, v))
            \/ \E h \in H, k \in Keys : Delete(h, k) /\ hist' = Append(hist, Rec("del", h, 0, k, model[h][k]))
            \/ \E h \in H, k \in Keys : FailedDelete(h, k) /\ hist' = Append(hist, Rec("del", h, 0, k, 1))
            \/ \E h \in H, k \in Keys : Get(h, k) /\ hist' = Append(hist, Rec("get", h, 0, k, 0))
            \/ \E h \in H : MakeRoot(h) /\ hist' = Append(hist, Rec("root", h, 0, 0, 0))
            \/ \E h, g \in H : Clone(h, g) /\ hist' = Append(hist, Rec("clone", h, g, 0, 0))
            \/ \E h \in H : New(h) /\ hist' = Append(hist, Rec("new", h, 0, 0, 0))
GSpec == GInit /\ [][GNext]_gvars
Emit == Len(hist) = Depth => PrintT(<<"BEH", ToJson([layers |-> layer, steps |-> hist])>>)
=============================================================================
