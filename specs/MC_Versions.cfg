SPECIFICATION Spec
CONSTANTS
 NK = 2
 NV = 1
 BF = 2
 MaxLayer = 1
 NH = 2
 MaxRoots = 1
 MaxMods = 0
 TrackStore = TRUE
 AsIsShrink = FALSE
INVARIANTS MapOK HeightOK CanonOK ShapeOK RootsComplete RootsFaithful Incremental CleanMeansUnchanged
PROPERTIES ReadOnlyIsStutter Immutability PathReads
CHECK_DEADLOCK FALSE
