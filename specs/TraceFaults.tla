----------------------------- MODULE TraceFaults -----------------------------
(* Validation of fault-injection runs recorded from the real code (harness
   family "faults", C12).  One event = one operation on one prepared tree with
   one fallible call (or a pair) failing: the result, the tree observed through
   a fault-free view afterwards, and the same call retried with the fault
   cleared.  The normal outcome of every call is computed here from the map
   model (MapPut/MapDel, the sorted sequence, ModelDiff, the walk oracle).

   C12:  result = error  =>  contents, size and height unchanged
                          /\  the retry gives the normal result and effect.
   A call that swallowed the fault (result ok) must still have its normal
   effect.  Panics under an injected fault are counted, not judged: C12 speaks
   of calls that return an error.                                          *)
EXTENDS MastDiffOps, MastCursorOps, Json

Trace == ndJsonDeserialize("trace.ndjson")
VARIABLES l, viol, stat
tvars == <<l, viol, stat>>
Stat0 == [rwalk |-> 0, dlinks |-> 0, events |-> 0, errs |-> 0, oks |-> 0, panics |-> 0, swallowed |-> 0, nothit |-> 0, load |-> 0, cmp |-> 0, marshal |-> 0, unmarshal |-> 0,
          pairs |-> 0, ins |-> 0, del |-> 0, get |-> 0, iter |-> 0, seek |-> 0, clone |-> 0, walk |-> 0, diff |-> 0]
TInit == l = 1 /\ viol = {} /\ stat = Stat0
Ev == Trace[l]
V(why) == [p |-> "C12", l |-> l, tr |-> Ev.id, why |-> why, h |-> 0]
Bump(s, f) == [s EXCEPT ![f] = @ + 1]
BumpIf(s, c, f) == IF c THEN Bump(s, f) ELSE s

\* normal outcome of the call on a tree with sorted entries S: [res, ents, data]
Normal(e) ==
  LET S == e.pre.ents
      m == MapOf(S)
      c == e.call
  IN CASE c.op = "ins" -> [res |-> "ok", ents |-> SortedPairs(MapPut(m, c.k, c.v)), data |-> <<>>]
       [] c.op = "del" -> IF c.k \in DOMAIN m /\ m[c.k] = c.v THEN [res |-> "ok", ents |-> SortedPairs(MapDel(m, c.k)), data |-> <<>>]
                          ELSE [res |-> "err", ents |-> S, data |-> <<>>]
       [] c.op = "get" -> [res |-> "ok", ents |-> S, data |-> IF c.k \in DOMAIN m THEN << <<1, m[c.k]>> >> ELSE << <<0, 0>> >>]
       [] c.op = "iter" -> [res |-> "ok", ents |-> S, data |-> S]
       [] c.op = "clone" -> [res |-> "ok", ents |-> S, data |-> S]
       [] c.op = "seek" -> [res |-> "ok", ents |-> S, data |-> From(S, c.k)]
       [] c.op = "rwalk" -> [res |-> "ok", ents |-> S, data |-> Expected(S, [start |-> c.start, p |-> c.k, moves |-> c.moves])]
       [] c.op = "walk" -> [res |-> "ok", ents |-> S, data |-> Expected(S, [start |-> c.start, p |-> c.k, moves |-> c.moves])]
       [] c.op = "dlinks" -> [res |-> "ok", ents |-> S, data |-> e.ndata]
       [] c.op = "diff" -> [res |-> "ok", ents |-> S, data |-> Num(ModelDiff(MapOf(e.oents), m))]

Same(o, ents, size) == o.err = "" /\ o.ents = ents /\ o.size = size
\* after a failed insert / delete the tree, persisted through a clone, still has the shape its recorded height promises
Consistent(e) == e.pok /\ e.pheight = e.post.height /\ WellFormed(e.pterm) /\ Shape(e.pterm, e.pheight, e.cfg.layers, e.cfg.nk + 1)

\* the input classes of the recorded findings, in terms of the trees only (no reliance on the wording of error messages): exactly
\* the calls in which fallible steps come after the mutation - a delete on a tree of height > 0 goes on to the shrink loop
\* (top-node inspection, merging the top levels), an insert at size >= bf^(height+1) goes on to the grow loop (layer computations)
ShrinkingDelete(e, n) == e.call.op = "del" /\ e.pre.height > 0
GrowingInsert(e, n) == e.call.op = "ins" /\ e.pre.size >= Pow(e.cfg.bf, e.pre.height + 1)

C12(e) ==
  LET n0 == Normal(e)
      walk == e.call.op \in {"walk", "rwalk"}
      n == [n0 EXCEPT !.data = IF walk THEN UpToOff(@) ELSE @]
      edata == IF walk THEN UpToOff(e.data) ELSE e.data
      erdata == IF walk THEN UpToOff(e.rdata) ELSE e.rdata
      pre == e.pre
  IN IF e.res = "panic" THEN {}
     ELSE IF e.res = "err" /\ n.res = "ok" THEN
          (IF Same(e.post, pre.ents, pre.size) /\ e.post.height = pre.height THEN {}
           \* named deviations (known findings, see known_findings.json): the input class that identifies each of them
           ELSE IF ShrinkingDelete(e, n) /\ Same(e.post, n.ents, pre.size - 1) /\ Consistent(e)
                THEN {V("Delete returned the error of its shrink step after having removed the entry")}
           ELSE IF GrowingInsert(e, n) /\ e.post.err = "" /\ e.post.ents = n.ents /\ e.post.size = pre.size
                THEN {V("Insert returned the error of its grow step after having inserted the entry without counting it")}
           ELSE {V("an operation that returned an error changed the tree's contents, size or height")})
          \cup (IF ~(Same(e.post, pre.ents, pre.size) /\ e.post.height = pre.height) THEN {}     \* the retry of a changed tree proves nothing
                ELSE IF e.rres # "ok" THEN {V("the same call fails when retried after the fault has cleared")}
                ELSE IF erdata # n.data \/ ~Same(e.rpost, n.ents, Len(n.ents)) THEN {V("the retried call does not give the normal result")} ELSE {})
     ELSE IF e.res = "ok" /\ n.res = "ok" THEN
          (IF edata # n.data \/ ~Same(e.post, n.ents, Len(n.ents))
           THEN {V(IF e.call.op = "rwalk" /\ e.hit > 0 THEN "a navigation call that failed does not give the normal result when made again on the same cursor"
                   ELSE "a fault was swallowed and the operation's result or effect is wrong")} ELSE {})
     ELSE {}

(* C09 on the version persisted (through a clone) right after a failed insert / delete: a persisted version is a persisted
   version, whatever happened before it.                                                                                   *)
V9(why) == [p |-> "C09", l |-> l, tr |-> Ev.id, why |-> why, h |-> 0]
C09(e) ==
  \* (... or after one that met a fault and reported success all the same)
  IF ~((e.res = "err" \/ (e.res = "ok" /\ e.hit > 0)) /\ e.call.op \in {"ins", "del"} /\ e.pok) THEN {}
  ELSE IF ~WellFormed(e.pterm) THEN {V9("a node persisted after an operation that met a fault does not have as many values as keys and one more child slot")} ELSE
  LET n == Len(Entries(e.pterm))
  IN (IF ~Shape(e.pterm, e.pheight, e.cfg.layers, e.cfg.nk + 1)
      THEN {V9("a version persisted after an operation that met a fault violates the shape invariants at its recorded height")} ELSE {})
     \cup (IF e.psize = n THEN {}
           \* named deviation (known finding C09-insert-grow-size): the entry went in, the grow step failed, the size was not incremented
           ELSE IF GrowingInsert(e, Normal(e)) /\ e.psize = n - 1
           THEN {V9("after an Insert that failed in its grow step the persisted size is one less than the reachable entries")}
           ELSE {V9("the size recorded in a version persisted after an operation that met a fault differs from its reachable entries")})

TFault == /\ l <= Len(Trace)
          /\ LET e == Ev
                 s1 == Bump(Bump(Bump(stat, "events"), e.kind), e.call.op)
                 s2 == BumpIf(BumpIf(BumpIf(s1, e.res = "err", "errs"), e.res = "ok", "oks"), e.res = "panic", "panics")
                 s3 == BumpIf(BumpIf(BumpIf(s2, e.res = "ok" /\ e.hit > 0, "swallowed"), e.hit = 0, "nothit"), e.at2 > 0, "pairs")
             IN viol' = viol \cup C12(e) \cup C09(e) /\ stat' = s3
          /\ l' = l + 1
TSpec == TInit /\ [][TFault]_tvars
Report == (l = Len(Trace) + 1) => PrintT(<<"REPORT", ToJson([viol |-> viol, stat |-> stat, consumed |-> l - 1])>>)
=============================================================================
