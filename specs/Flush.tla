------------------------------- MODULE Flush -------------------------------
(* The flush protocol behind MakeRoot (pub.go flush, store.go node.store):
   a main goroutine walks the dirty nodes in post-order, marshals and hashes
   each, consults the node cache, and hands a "store this" closure over an
   unbuffered channel to a dispatcher goroutine, which takes one of GateSize
   semaphore tokens and spawns a worker goroutine; the worker checks the shared
   first-error slot, calls Persist.Store (arbitrary delay, may fail), records
   the first error, publishes the node object through cache.Add, returns the
   token.  Main closes the channel, waits for the wait group, and returns the
   error or publishes the root.  Every arrow of that description is a separate
   action, so TLC explores every interleaving, completion order, failure
   subset and retry.

   Nodes are numbered in post-order (1..N, N is the top node); all of them are
   reachable from the top.  CleanSet are nodes persisted earlier (skipped).

   Variant
     "asis"    pinned release: a node is flagged clean / given its source name /
               its parent's link replaced by the name as soon as its write is
               QUEUED, and the live node object is handed to the cache;
     "commit"  flags and links are committed only after all writes succeeded,
               the live object is still handed to the cache;
     "copy"    (intended) commit after success, and the cache gets a private
               clean copy made before the write is queued.
   An independent reader goroutine (another tree sharing the cache) models
   what publication through the cache exposes (C11).                        *)
EXTENDS Integers, Sequences, FiniteSets, TLC

CONSTANTS
  \* @type: Int;
  N,
  \* @type: Int;
  GateSize,
  \* @type: Int;
  MaxFailures,
  \* @type: Int;
  MaxAttempts,
  \* @type: Str;
  Variant,
  \* @type: Set(Int);
  CleanSet,               \* nodes already persisted before this flush
  \* @type: Bool;
  UseCache,
  \* @type: Set(Int);
  ForeignCached,          \* names the shared cache holds under ANOTHER store's prefix
  \* @type: Bool;
  CacheKeyIgnoresPrefix,  \* TRUE: a (mutant) cache key without the store prefix
  \* @type: Bool;
  PublishEarly,           \* TRUE: a (mutant) worker hands the node to the cache before its write has completed
  \* @type: Bool;
  WithReader

Nodes == 1..N
None == 0
Closed == -1

VARIABLES
  \* main
  \* @type: Str;
  mpc,
  \* @type: Int;
  cur,
  \* @type: Int;
  attempt,
  \* @type: Str;
  result,
  \* what main has written into the in-memory tree
  \* @type: Int -> Bool;
  flags,
  \* @type: Int -> Bool;
  linkIsHash,
  \* @type: Set(Int);
  pending,
  \* channel, dispatcher, semaphore, wait group
  \* @type: Int;
  chan,
  \* @type: Str;
  dpc,
  \* @type: Int;
  df,
  \* @type: Int;
  tokens,
  \* @type: Int;
  wg,
  \* workers
  \* @type: Int -> Str;
  wst,
  \* @type: Bool;
  firstErr,
  \* @type: Bool;
  failedNow,
  \* environment
  \* @type: Set(Int);
  store,
  \* @type: Set(Int);
  cache,
  \* @type: Int;
  failsLeft,
  \* publication through the cache
  \* @type: Set(<<Int, Str>>);
  published,
  \* @type: Set(Int);
  writtenAfterPub,
  \* @type: Str;
  rpc,
  \* @type: Seq(<<Int, Str>>);
  rseen,
  \* @type: Set(Int);
  inPlaceEdit
vars == <<mpc, cur, attempt, result, flags, linkIsHash, pending, chan, dpc, df, tokens, wg, wst, firstErr, failedNow,
          store, cache, failsLeft, published, writtenAfterPub, rpc, rseen, inPlaceEdit>>

Init == /\ mpc = "visit" /\ cur = 1 /\ attempt = 1 /\ result = "none"
        /\ flags = [n \in Nodes |-> n \in CleanSet]
        /\ linkIsHash = [n \in Nodes |-> n \in CleanSet]
        /\ pending = {}
        /\ chan = None /\ dpc = "recv" /\ df = None /\ tokens = GateSize /\ wg = 1
        /\ wst = [n \in Nodes |-> "idle"] /\ firstErr = FALSE /\ failedNow = FALSE
        /\ store = CleanSet /\ cache = {} /\ failsLeft = MaxFailures
        /\ published = {} /\ writtenAfterPub = {} /\ rpc = "idle" /\ rseen = <<>> /\ inPlaceEdit = {}

U(v) == UNCHANGED v
MainVars == <<mpc, cur, attempt, result, flags, linkIsHash, pending>>
PoolVars == <<chan, dpc, df, tokens, wg, wst, firstErr, failedNow>>
EnvVars == <<store, cache, failsLeft>>
PubVars == <<published, writtenAfterPub, rpc, rseen, inPlaceEdit>>

CacheHit(n) == UseCache /\ (n \in cache \/ (CacheKeyIgnoresPrefix /\ n \in ForeignCached))

\* main writes dirty=false / source / shared=true (and the parent's link) of the nodes in S
Commit(S) == /\ flags' = [n \in Nodes |-> flags[n] \/ n \in S]
             /\ linkIsHash' = [n \in Nodes |-> linkIsHash[n] \/ n \in S]
             /\ writtenAfterPub' = writtenAfterPub \cup {n \in S : <<n, "orig">> \in published}

(* ---- main goroutine ---- *)
MSkipClean == /\ mpc = "visit" /\ cur <= N /\ flags[cur]           \* !dirty && source != nil: return the name
              /\ cur' = cur + 1
              /\ IF Variant = "asis" THEN linkIsHash' = [linkIsHash EXCEPT ![cur] = TRUE] /\ U(pending)
                 ELSE U(linkIsHash) /\ U(pending)
              /\ U(<<mpc, attempt, result, flags>>) /\ U(PoolVars) /\ U(EnvVars) /\ U(PubVars)
MCacheHit == /\ mpc = "visit" /\ cur <= N /\ ~flags[cur] /\ CacheHit(cur)   \* cache.Contains: the write is skipped, the name returned
             /\ cur' = cur + 1
             \* the parent's link to it becomes the name (at once as-is, with the commit otherwise); the node itself stays dirty
             /\ IF Variant = "asis" THEN linkIsHash' = [linkIsHash EXCEPT ![cur] = TRUE] /\ U(pending)
                ELSE pending' = pending \cup {cur} /\ U(linkIsHash)
             /\ U(<<mpc, attempt, result, flags>>) /\ U(PoolVars) /\ U(EnvVars) /\ U(PubVars)
MSend == /\ mpc = "visit" /\ cur <= N /\ ~flags[cur] /\ ~CacheHit(cur) /\ chan = None
         /\ chan' = cur /\ mpc' = "sent"                              \* storeQ <- f: completes when the dispatcher receives
         /\ U(<<cur, attempt, result, flags, linkIsHash, pending>>)
         /\ U(<<dpc, df, tokens, wg, wst, firstErr, failedNow>>) /\ U(EnvVars) /\ U(PubVars)
MMark == /\ mpc = "sent" /\ chan = None
         /\ IF Variant = "asis" THEN Commit({cur}) /\ U(pending)
            ELSE pending' = pending \cup {cur} /\ U(<<flags, linkIsHash, writtenAfterPub>>)
         /\ cur' = cur + 1 /\ mpc' = "visit"
         /\ U(<<attempt, result>>) /\ U(PoolVars) /\ U(EnvVars) /\ U(<<published, rpc, rseen, inPlaceEdit>>)
MClose == /\ mpc = "visit" /\ cur > N /\ chan = None
          /\ chan' = Closed /\ mpc' = "closing"
          /\ U(<<cur, attempt, result, flags, linkIsHash, pending>>)
          /\ U(<<dpc, df, tokens, wg, wst, firstErr, failedNow>>) /\ U(EnvVars) /\ U(PubVars)
MWait == /\ mpc = "closing" /\ chan = None /\ wg = 0
         /\ mpc' = "returned"
         /\ IF firstErr
            THEN /\ result' = "err" /\ U(<<flags, linkIsHash, writtenAfterPub>>)
            ELSE /\ result' = "ok"
                 /\ IF Variant = "asis" THEN U(<<flags, linkIsHash, writtenAfterPub>>) ELSE Commit(pending)
         /\ pending' = {}
         /\ U(cur) /\ U(attempt) /\ U(PoolVars) /\ U(EnvVars) /\ U(<<published, rpc, rseen, inPlaceEdit>>)
MRetry == /\ mpc = "returned" /\ result = "err" /\ attempt < MaxAttempts
          /\ mpc' = "visit" /\ cur' = 1 /\ attempt' = attempt + 1 /\ result' = "none"
          /\ dpc' = "recv" /\ df' = None /\ tokens' = GateSize /\ wg' = 1 /\ firstErr' = FALSE /\ failedNow' = FALSE
          /\ wst' = [n \in Nodes |-> "idle"]
          /\ U(<<flags, linkIsHash, pending, chan>>) /\ U(EnvVars) /\ U(PubVars)

(* ---- dispatcher goroutine ---- *)
DRecv == /\ dpc = "recv" /\ chan # None
         /\ df' = chan /\ chan' = None /\ dpc' = "gate"
         /\ U(MainVars) /\ U(<<tokens, wg, wst, firstErr, failedNow>>) /\ U(EnvVars) /\ U(PubVars)
DGate == /\ dpc = "gate" /\ tokens > 0
         /\ tokens' = tokens - 1
         /\ IF df = Closed THEN /\ dpc' = "exit" /\ wg' = wg - 1 /\ U(wst)
            ELSE /\ dpc' = "recv" /\ wg' = wg + 1 /\ wst' = [wst EXCEPT ![df] = "spawned"]
         /\ U(MainVars) /\ U(<<chan, df, firstErr, failedNow>>) /\ U(EnvVars) /\ U(PubVars)

(* ---- worker goroutines ---- *)
Done(n) == /\ wst' = [wst EXCEPT ![n] = "done"] /\ tokens' = tokens + 1 /\ wg' = wg - 1
WCheck(n) == /\ wst[n] = "spawned"
             /\ IF firstErr THEN Done(n)                              \* an earlier write failed: do not even try
                ELSE /\ wst' = [wst EXCEPT ![n] = "storing"] /\ U(tokens) /\ U(wg)
             /\ cache' = IF PublishEarly /\ UseCache /\ ~firstErr THEN cache \cup {n} ELSE cache
             /\ U(MainVars) /\ U(<<chan, dpc, df, firstErr, failedNow>>) /\ U(<<store, failsLeft>>) /\ U(PubVars)
WStoreOk(n) == /\ wst[n] = "storing"
               /\ store' = store \cup {n}
               /\ wst' = [wst EXCEPT ![n] = "stored"]
               /\ U(MainVars) /\ U(<<chan, dpc, df, tokens, wg, firstErr, failedNow>>) /\ U(<<cache, failsLeft>>) /\ U(PubVars)
WPublish(n) == /\ wst[n] = "stored"                                   \* cache.Add, then the deferred token return and Done
               /\ cache' = IF UseCache THEN cache \cup {n} ELSE cache
               /\ published' = IF UseCache THEN published \cup {<<n, IF Variant = "copy" THEN "copy" ELSE "orig">>} ELSE published
               /\ Done(n)
               /\ U(MainVars) /\ U(<<chan, dpc, df, firstErr, failedNow>>) /\ U(<<store, failsLeft>>)
               /\ U(<<writtenAfterPub, rpc, rseen, inPlaceEdit>>)
WStoreFail(n) == /\ wst[n] = "storing" /\ failsLeft > 0
                 /\ failsLeft' = failsLeft - 1 /\ firstErr' = TRUE /\ failedNow' = TRUE
                 /\ Done(n)
                 /\ U(MainVars) /\ U(<<chan, dpc, df>>) /\ U(store) /\ U(cache) /\ U(PubVars)

(* ---- a reader: another tree's goroutine that gets a node object from the shared cache and, ---- *)
(* ---- when it modifies it, reads `shared` to decide between copying and editing in place    ---- *)
RGet == /\ WithReader /\ rpc = "idle" /\ \E p \in published: rseen' = <<p>> /\ rpc' = "got"
        /\ U(MainVars) /\ U(PoolVars) /\ U(EnvVars) /\ U(<<published, writtenAfterPub, inPlaceEdit>>)
RToMut == /\ WithReader /\ rpc = "got" /\ rpc' = "idle"
          /\ LET p == rseen[1]
                 shared == IF p[2] = "copy" THEN TRUE ELSE flags[p[1]]
             IN inPlaceEdit' = IF shared THEN inPlaceEdit ELSE inPlaceEdit \cup {p[1]}
          /\ U(MainVars) /\ U(PoolVars) /\ U(EnvVars) /\ U(<<published, writtenAfterPub, rseen>>)

Next == MSkipClean \/ MCacheHit \/ MSend \/ MMark \/ MClose \/ MWait \/ MRetry \/ DRecv \/ DGate
        \/ (\E n \in Nodes: WCheck(n) \/ WStoreOk(n) \/ WPublish(n) \/ WStoreFail(n))
        \/ RGet \/ RToMut
FlushNext == MSkipClean \/ MCacheHit \/ MSend \/ MMark \/ MClose \/ MWait \/ DRecv \/ DGate
             \/ (\E n \in Nodes: WCheck(n) \/ WStoreOk(n) \/ WPublish(n) \/ WStoreFail(n))
Spec == Init /\ [][Next]_vars /\ WF_vars(FlushNext)

(* ------------------------------ properties ------------------------------ *)
\* C03
SuccessImpliesAllReachableStored == result = "ok" => Nodes \subseteq store
NoWriteInFlightAtReturn == mpc = "returned" => \A n \in Nodes: wst[n] \in {"idle", "done"}
ErrorsSurface == (mpc = "returned" /\ failedNow) => result = "err"
\* after a failed attempt the in-memory tree only names nodes that are in the store, and claims clean only what is stored
FailureLeavesTreeUsable == (mpc = "returned" /\ result = "err") => \A n \in Nodes: (linkIsHash[n] \/ flags[n]) => n \in store
NoSkipAcrossStores == \A n \in Nodes: (n \in ForeignCached /\ result = "ok") => n \in store
GateRespected == Cardinality({n \in Nodes: wst[n] \in {"spawned", "storing", "stored"}}) <= GateSize
Termination == <>(mpc = "returned")
\* C11 (publication)
\* what this store's flushes have put into the shared cache is in the store: other trees skip the write of a node they find there
CacheImpliesStored == cache \subseteq store
PublishedObjectsAreFrozen == writtenAfterPub = {}
NoInPlaceEditOfPublished == inPlaceEdit = {}
=============================================================================
