----------------------------- MODULE MastSteps -----------------------------
(* Step functions on handle records: the body of each public call of
   jrhy/mast as a pure function.  Mast.tla (exhaustive design-level model) and
   TraceMast.tla (validation of recorded executions) both use exactly these.

   A handle record:
     root    kid term with residency flags (MastCore)
     height, size
     base    the version the handle was loaded from / last persisted as:
             [root |-> stripped kid, height |-> Nat]
     mods    keys whose presence or value was changed by a successful call
             since base
     stable  no step since base changed the height (C13's antecedent)       *)
EXTENDS MastCore

NoBase == [root |-> <<>>, height |-> 0]
Fresh == [live |-> TRUE, root |-> <<>>, height |-> 0, size |-> 0,
          base |-> NoBase, mods |-> {}, stable |-> TRUE]
Dead == [live |-> FALSE, root |-> <<>>, height |-> 0, size |-> 0,
         base |-> NoBase, mods |-> {}, stable |-> TRUE]

(* ------------------------------------------------------------------ *)
(* step functions: [hr |-> new handle record, ok, n |-> distinct loads, *)
(*                  hs |-> height unchanged by this step]               *)
(* ------------------------------------------------------------------ *)
DoInsert(hr, present, same, key, val, layer, bf) ==
  LET tgt == Min({layer[key], hr.height})
      r == Ins(hr.root, hr.height, tgt, key, val)
  IN IF present /\ same
     THEN [hr |-> hr, kind |-> "noop", ld |-> r.ld, hs |-> TRUE]     \* returns before copying anything
     ELSE IF present
     THEN [hr |-> [hr EXCEPT !.root = r.t, !.mods = @ \cup {key}], kind |-> "upd", ld |-> r.ld, hs |-> TRUE]
     ELSE LET g == GrowLoop(r.t, hr.height, hr.size, layer, bf)
          IN [hr |-> [hr EXCEPT !.root = g[1], !.height = g[2], !.size = @ + 1, !.mods = @ \cup {key},
                                !.stable = (@ /\ g[2] = hr.height)],
              kind |-> "ins", ld |-> r.ld, hs |-> g[2] = hr.height]

DoDelete(hr, key, layer, bf, asis) ==    \* precondition: key present with the given value
  LET tgt == Min({layer[key], hr.height})
      r == Del(hr.root, hr.height, tgt, key)
      s == ShrinkLoop(r.t, hr.height, hr.size - 1, {}, bf, asis)
  IN [hr |-> [hr EXCEPT !.root = s.t, !.height = s.h, !.size = @ - 1, !.mods = @ \cup {key},
                        !.stable = (@ /\ s.h = hr.height)],
      ok |-> r.ok, kind |-> "del", ld |-> r.ld \cup s.ld, hs |-> s.h = hr.height]

DoFailedDelete(hr, key, layer) ==        \* absent key or non-matching value: error, no effect
  LET tgt == Min({layer[key], hr.height})
      r == Find(hr.root, hr.height, tgt, key)
  IN [hr |-> hr, kind |-> "nodel", ld |-> r.ld, hs |-> TRUE]

DoGet(hr, key, layer) ==
  LET tgt == Min({layer[key], hr.height})
  IN Find(hr.root, hr.height, tgt, key)

DoMakeRoot(hr) ==
  [hr |-> [hr EXCEPT !.root = AllClean(@), !.base = [root |-> Strip(hr.root), height |-> hr.height],
                     !.mods = {}, !.stable = TRUE],
   w |-> MemNodes(hr.root),
   root |-> [root |-> Strip(hr.root), height |-> hr.height, size |-> hr.size]]

DoLoad(r) == [live |-> TRUE, root |-> Resident(r.root), height |-> r.height, size |-> r.size,
              base |-> [root |-> r.root, height |-> r.height], mods |-> {}, stable |-> TRUE]
=============================================================================
