----------------------------- MODULE FileStore -----------------------------
(* The file-backed store (persist/file/lib.go) at syscall granularity, for one
   node name whose complete contents are L abstract bytes.  Writers are
   processes running Store(name, bytes); each syscall is a step, a process may
   crash between any two steps and after any written byte, and a write may
   fail with an I/O error (Store then returns the error).
   Protocol
     "direct"  (pinned release)  Stat(final); if absent: open final with
               O_CREATE|O_TRUNC, write, close; if present: return success
     "rename"  (intended)        Stat(final); if absent: create a private
               temporary file, write, close, rename onto final; remove the
               temporary file on error
   `final` is the length of the file under the final name (-1: absent).     *)
EXTENDS Integers, FiniteSets, TLC
CONSTANTS Writers, L, MaxCrashes, Protocol

VARIABLES final, tmp, pc, ret, crashes
vars == <<final, tmp, pc, ret, crashes>>

Init == /\ final = -1 /\ tmp = [w \in Writers |-> -1] /\ pc = [w \in Writers |-> "idle"]
        /\ ret = [w \in Writers |-> "none"] /\ crashes = 0

Start(w) == /\ pc[w] = "idle" /\ pc' = [pc EXCEPT ![w] = "stat"] /\ UNCHANGED <<final, tmp, ret, crashes>>
Stat(w) == /\ pc[w] = "stat"
           /\ IF final # -1 THEN /\ pc' = [pc EXCEPT ![w] = "done"] /\ ret' = [ret EXCEPT ![w] = "ok"]   \* exists: nothing to do
              ELSE /\ pc' = [pc EXCEPT ![w] = "open"] /\ UNCHANGED ret
           /\ UNCHANGED <<final, tmp, crashes>>
Open(w) == /\ pc[w] = "open"
           /\ IF Protocol = "direct" THEN /\ final' = 0 /\ UNCHANGED tmp
              ELSE /\ tmp' = [tmp EXCEPT ![w] = 0] /\ UNCHANGED final
           /\ pc' = [pc EXCEPT ![w] = "write"] /\ UNCHANGED <<ret, crashes>>
Cur(w) == IF Protocol = "direct" THEN final ELSE tmp[w]
WriteByte(w) == /\ pc[w] = "write" /\ Cur(w) < L
                /\ IF Protocol = "direct" THEN /\ final' = final + 1 /\ UNCHANGED tmp
                   ELSE /\ tmp' = [tmp EXCEPT ![w] = tmp[w] + 1] /\ UNCHANGED final
                /\ UNCHANGED <<pc, ret, crashes>>
WriteDone(w) == /\ pc[w] = "write" /\ Cur(w) = L
                /\ pc' = [pc EXCEPT ![w] = IF Protocol = "direct" THEN "done" ELSE "rename"]
                /\ ret' = [ret EXCEPT ![w] = IF Protocol = "direct" THEN "ok" ELSE ret[w]]
                /\ UNCHANGED <<final, tmp, crashes>>
Rename(w) == /\ pc[w] = "rename" /\ final' = tmp[w] /\ tmp' = [tmp EXCEPT ![w] = -1]
             /\ pc' = [pc EXCEPT ![w] = "done"] /\ ret' = [ret EXCEPT ![w] = "ok"] /\ UNCHANGED crashes
IoError(w) == /\ pc[w] = "write" /\ crashes < MaxCrashes /\ crashes' = crashes + 1
              /\ pc' = [pc EXCEPT ![w] = "done"] /\ ret' = [ret EXCEPT ![w] = "err"]
              /\ IF Protocol = "direct" THEN UNCHANGED <<final, tmp>> ELSE /\ tmp' = [tmp EXCEPT ![w] = -1] /\ UNCHANGED final
Crash(w) == /\ pc[w] \in {"stat", "open", "write", "rename"} /\ crashes < MaxCrashes /\ crashes' = crashes + 1
            /\ pc' = [pc EXCEPT ![w] = "dead"] /\ UNCHANGED <<final, tmp, ret>>
Next == \E w \in Writers: Start(w) \/ Stat(w) \/ Open(w) \/ WriteByte(w) \/ WriteDone(w) \/ Rename(w) \/ IoError(w) \/ Crash(w)
Spec == Init /\ [][Next]_vars

\* C17: a Load at any moment fails as not found or returns the complete bytes
LoadIsCompleteOrMissing == final = -1 \/ final = L
\* a Store that reported success left the complete node
SuccessMeansComplete == \A w \in Writers: ret[w] = "ok" => final = L
\* once nobody is writing any more and some later Store has reported success, the node is complete (a re-store repairs)
RestoreRepairs == ((\A w \in Writers: pc[w] \in {"done", "dead", "idle"}) /\ (\E w \in Writers: ret[w] = "ok")) => final = L
=============================================================================
