----------------------------- MODULE TraceStore -----------------------------
(* Validation of Persist backend runs recorded from the real code (harness
   family "store", C18): the abstract store of Store.tla is a map from names to
   the digest of the bytes last successfully stored; every recorded Store /
   Load / concurrent-writers event must be a step of that store, injected
   backend errors must surface, and the S3 backend may only ever ask its
   client for the object  bucket | prefix \o name.                          *)
EXTENDS Integers, Sequences, FiniteSets, TLC, Json
Trace == ndJsonDeserialize("trace.ndjson")
VARIABLES l, model, viol, stat
tvars == <<l, model, viol, stat>>
Stat0 == [rechecks |-> 0, events |-> 0, runs |-> 0, stores |-> 0, loads |-> 0, misses |-> 0, injected |-> 0, concurrent |-> 0, s3calls |-> 0, empty |-> 0, large |-> 0,
          mem |-> 0, file |-> 0, s3 |-> 0]
None == "-"
TInit == l = 1 /\ model = [i \in 0..7 |-> None] /\ viol = {} /\ stat = Stat0
Ev == Trace[l]
V(why) == [p |-> "C18", l |-> l, tr |-> Ev.id, why |-> why, h |-> 0]
Bump(s, f) == [s EXCEPT ![f] = @ + 1]
BumpIf(s, c, f) == IF c THEN Bump(s, f) ELSE s
KeyViol(e) == IF e.backend = "s3" /\ (e.asked = <<>> \/ \E i \in DOMAIN e.asked : e.asked[i] # e.intend)
              THEN {V("the S3 backend asks for an object other than prefix+name in the configured bucket")} ELSE {}
Step(v, s) == /\ viol' = viol \cup v /\ stat' = Bump(s, "events") /\ l' = l + 1
Is(op) == l <= Len(Trace) /\ Ev.op = op

TBegin == Is("sbegin") /\ model' = [i \in 0..7 |-> None] /\ Step({}, Bump(Bump(stat, "runs"), Ev.backend))
TStore == /\ Is("store")
          /\ LET e == Ev
                 v == (IF e.res = "panic" THEN {V("Store panics")}
                       ELSE IF e.inject /\ ~e.transient /\ e.res # "err" THEN {V("a backend error is not returned to the caller of Store")}
                       ELSE IF ~e.inject /\ e.res # "ok" THEN {V("Store fails on a healthy backend")} ELSE {})
                      \cup KeyViol(e)
             \* a transient backend error may be returned or ridden out by the backend; a Store that reports success has stored the bytes
             IN /\ model' = IF e.res = "ok" /\ (~e.inject \/ e.transient) THEN [model EXCEPT ![e.name] = e.dig] ELSE model
                /\ Step(v, BumpIf(BumpIf(BumpIf(Bump(stat, "stores"), e.inject, "injected"), e.len = 0, "empty"), e.len > 100000, "large"))
TCStore == /\ Is("cstore")
           /\ LET e == Ev
                  v == IF e.errs > 0 THEN {V("concurrent writers of the same name and bytes fail")} ELSE {}
              IN /\ model' = [model EXCEPT ![e.name] = e.dig]
                 /\ Step(v, Bump(stat, "concurrent"))
(* uploads of one name held in flight together, the first of them then failing (S3): a writer may fail only if its own upload did,
   and once some writer has reported success the bytes are stored *)
THStore == /\ Is("hstore")
           /\ LET e == Ev
                  v == IF e.errs > e.injected THEN {V("concurrent writers of the same name and bytes fail")} ELSE {}
              IN /\ model' = IF e.oks > 0 THEN [model EXCEPT ![e.name] = e.dig] ELSE model
                 /\ Step(v, Bump(stat, "concurrent"))
TLoad == /\ Is("load")
         /\ LET e == Ev
                want == model[e.name]
                v == (IF e.res = "panic" THEN {V("Load panics")}
                      ELSE IF e.inject THEN (IF e.res # "err" THEN {V("a backend error is not returned to the caller of Load")} ELSE {})
                      ELSE IF want = None THEN (IF e.res = "ok" THEN {V("loading a name never written returns data instead of an error")} ELSE {})
                      ELSE IF e.res # "ok" THEN {V("a name that was stored successfully cannot be loaded")}
                      ELSE IF e.dig # want THEN {V("Load returns bytes other than those stored under the name")} ELSE {})
                     \cup KeyViol(e)
            IN /\ UNCHANGED model
               /\ Step(v, BumpIf(BumpIf(Bump(stat, "loads"), want = None, "misses"), e.inject, "injected"))
(* bytes handed to the caller by earlier Loads, looked at again after later calls (sequentially, or by concurrent readers) *)
TRecheck == /\ Is("recheck")
            /\ UNCHANGED model
            /\ Step(IF Ev.changed > 0 THEN {V("bytes returned by an earlier Load changed under the caller after later calls")} ELSE {}, Bump(stat, "rechecks"))
TNext == TBegin \/ TStore \/ TCStore \/ THStore \/ TLoad \/ TRecheck
TSpec == TInit /\ [][TNext]_tvars
Report == (l = Len(Trace) + 1) => PrintT(<<"REPORT", ToJson([viol |-> viol, stat |-> stat, consumed |-> l - 1])>>)
=============================================================================
