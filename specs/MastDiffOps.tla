---------------------------- MODULE MastDiffOps ----------------------------
(* The diff machine of jrhy/mast as pure operators: diffOne (diff.go:107-255)
   as Step, alreadyNotified (257-293) with its per-height memo, the stack
   helpers (295-335), load accounting, and the independent oracle ModelDiff.
   Used by MastDiff.tla (exhaustive enumeration of pairs) and TraceDiff.tla
   (validation of recorded diff runs of the real code).                     *)
EXTENDS MastCore

RECURSIVE ReachT(_)     \* nodes (= names) reachable in a stripped tree
ReachT(kid) == IF kid = <<>> THEN {} ELSE {kid[1]} \cup UNION {ReachT(kid[1].c[i]) : i \in 1..Len(kid[1].c)}

(* ---------- stack items ---------- *)
LinkItem(n) == [t |-> "L", n |-> n, k |-> 0, v |-> 0]
YieldItem(k, v) == [t |-> "Y", n |-> 0, k |-> k, v |-> v]
NilItem == YieldItem(0, 0)    \* iterItem{considerLink: nil}: a "yield" of the zero entry (key 0 is no key)

PushLink(st, kid) == IF kid = <<>> THEN st ELSE Append(st, LinkItem(kid[1]))
RECURSIVE PushNodeFrom(_, _, _)
PushNodeFrom(st, node, i) ==
  IF i = 0 THEN PushLink(st, node.c[1])
  ELSE PushNodeFrom(Append(PushLink(st, node.c[i+1]), YieldItem(node.k[i], node.v[i])), node, i-1)
PushNode(st, node) == PushNodeFrom(st, node, Len(node.k))
Pop(st) == IF st = <<>> THEN <<>> ELSE <<st[Len(st)]>>
Rest(st) == IF st = <<>> THEN st ELSE SubSeq(st, 1, Len(st)-1)

(* ---------- alreadyNotified: <<already, memo', nodes loaded>> ---------- *)
RECURSIVE FirstKeyed(_, _)
FirstKeyed(node, acc) ==
  IF Len(node.c) = 1
  THEN (IF node.c[1] = <<>> THEN << <<>>, acc \cup {node} >> ELSE FirstKeyed(node.c[1][1], acc \cup {node}))
  ELSE << <<node>>, acc \cup {node} >>
AlreadyNotified(node, memo, layer) ==
  LET fk == FirstKeyed(node, {})
  IN IF fk[1] = <<>> THEN <<FALSE, memo, fk[2]>>
     ELSE LET h == layer[fk[1][1].k[1]]
          IN IF h \in DOMAIN memo /\ memo[h] = node THEN <<TRUE, memo, fk[2]>>
             ELSE <<FALSE, [x \in DOMAIN memo \cup {h} |-> IF x = h THEN node ELSE memo[x]], fk[2]>>

(* ---------- machine state ---------- *)
InitDS(old, new, hasOld, pushNil) ==
  [os |-> IF ~hasOld THEN <<>> ELSE IF old = <<>> THEN (IF pushNil THEN <<NilItem>> ELSE <<>>) ELSE <<LinkItem(old[1])>>,
   ns |-> IF new = <<>> THEN (IF pushNil THEN <<NilItem>> ELSE <<>>) ELSE <<LinkItem(new[1])>>,
   mo |-> <<>>, mn |-> <<>>, out |-> <<>>, added |-> <<>>, removed |-> <<>>, loads |-> {}, done |-> FALSE, err |-> FALSE,
   \* a store that fails once: the Load that the g-th duplicate check (alreadyNotified) starts with fails (g = 0: never);
   \* sw = TRUE is the behaviour before fix e203d09 (the check answers "not reported yet" and forgets the link), FALSE the repaired one
   g |-> 0, nc |-> 0, sw |-> FALSE]
InitDSF(old, new, hasOld, pushNil, g, sw) == [InitDS(old, new, hasOld, pushNil) EXCEPT !.g = g, !.sw = sw]
Glitch(ds) == ds.g > 0 /\ ds.nc + 1 = ds.g

NotifyOld(ds, node, layer) ==
  IF Glitch(ds) THEN (IF ds.sw THEN [ds EXCEPT !.nc = @ + 1, !.removed = Append(@, node)] ELSE [ds EXCEPT !.nc = @ + 1, !.err = TRUE, !.done = TRUE])
  ELSE LET r == AlreadyNotified(node, ds.mo, layer)
       IN [ds EXCEPT !.nc = @ + 1, !.mo = r[2], !.loads = @ \cup r[3], !.removed = IF r[1] THEN @ ELSE Append(@, node)]
NotifyNew(ds, node, layer) ==
  IF Glitch(ds) THEN (IF ds.sw THEN [ds EXCEPT !.nc = @ + 1, !.added = Append(@, node)] ELSE [ds EXCEPT !.nc = @ + 1, !.err = TRUE, !.done = TRUE])
  ELSE LET r == AlreadyNotified(node, ds.mn, layer)
       IN [ds EXCEPT !.nc = @ + 1, !.mn = r[2], !.loads = @ \cup r[3], !.added = IF r[1] THEN @ ELSE Append(@, node)]

Out(kind, k, ov, nv) == <<kind, k, ov, nv>>

(* one call of diffOne *)
Step(ds, layer, shortcut) ==
  LET o == Pop(ds.os)  n == Pop(ds.ns)
      d0 == [ds EXCEPT !.os = Rest(ds.os), !.ns = Rest(ds.ns)]
  IN IF o = <<>> /\ n = <<>> THEN [ds EXCEPT !.done = TRUE]
     ELSE IF o = <<>> THEN
        IF n[1].t = "L" THEN LET d1 == NotifyNew(d0, n[1].n, layer) IN [d1 EXCEPT !.loads = @ \cup {n[1].n}, !.ns = PushNode(@, n[1].n)]
        ELSE [d0 EXCEPT !.out = Append(@, Out("add", n[1].k, 0, n[1].v))]
     ELSE IF n = <<>> THEN
        IF o[1].t = "L" THEN LET d1 == NotifyOld(d0, o[1].n, layer) IN [d1 EXCEPT !.loads = @ \cup {o[1].n}, !.os = PushNode(@, o[1].n)]
        ELSE [d0 EXCEPT !.out = Append(@, Out("rem", o[1].k, o[1].v, 0))]
     ELSE IF o[1].t = "L" /\ n[1].t = "L" THEN
        IF o[1].n = n[1].n /\ shortcut THEN d0
        ELSE LET d1 == NotifyNew(NotifyOld(d0, o[1].n, layer), n[1].n, layer)
                 on == o[1].n  nn == n[1].n
                 d2 == [d1 EXCEPT !.loads = @ \cup {on}]
             IN IF Len(on.c) = 1 THEN [d2 EXCEPT !.os = PushLink(@, on.c[1]), !.ns = Append(@, n[1])]
                ELSE LET d3 == [d2 EXCEPT !.loads = @ \cup {nn}] IN
                     IF Len(nn.c) = 1 THEN [d3 EXCEPT !.os = Append(@, o[1]), !.ns = PushLink(@, nn.c[1])]
                     ELSE IF on.k[1] < nn.k[1] THEN [d3 EXCEPT !.os = PushNode(@, on), !.ns = Append(@, n[1])]
                     ELSE IF on.k[1] > nn.k[1] THEN [d3 EXCEPT !.os = Append(@, o[1]), !.ns = PushNode(@, nn)]
                     ELSE [d3 EXCEPT !.os = PushNode(@, on), !.ns = PushNode(@, nn)]
     ELSE IF o[1].t = "L" THEN
        LET d1 == NotifyOld(d0, o[1].n, layer) IN [d1 EXCEPT !.loads = @ \cup {o[1].n}, !.os = PushNode(@, o[1].n), !.ns = Append(@, n[1])]
     ELSE IF n[1].t = "L" THEN
        LET d1 == NotifyNew(d0, n[1].n, layer) IN [d1 EXCEPT !.loads = @ \cup {n[1].n}, !.os = Append(@, o[1]), !.ns = PushNode(@, n[1].n)]
     ELSE \* both yields
        IF o[1].k = 0 \/ n[1].k = 0 THEN
           (IF o[1].k = 0 /\ n[1].k = 0 THEN d0 ELSE [d0 EXCEPT !.err = TRUE, !.done = TRUE])   \* keyOrder(nil, key) is an error
        ELSE IF o[1].k < n[1].k THEN [d0 EXCEPT !.ns = Append(@, n[1]), !.out = Append(@, Out("rem", o[1].k, o[1].v, 0))]
        ELSE IF o[1].k > n[1].k THEN [d0 EXCEPT !.os = Append(@, o[1]), !.out = Append(@, Out("add", n[1].k, 0, n[1].v))]
        ELSE IF o[1].v # n[1].v THEN [d0 EXCEPT !.out = Append(@, Out("chg", o[1].k, o[1].v, n[1].v))]
        ELSE d0

RECURSIVE Run(_, _, _)
Run(ds, layer, shortcut) == IF ds.done THEN ds ELSE Run(Step(ds, layer, shortcut), layer, shortcut)

(* the zero entry of a nil item surfaces as a yield of key 0, which the callers skip (curKey = nil) *)
Real(out) == SelectSeq(out, LAMBDA e: e[2] # 0)

(* ---------- the independent oracle: difference of two maps ---------- *)
ModelDiff(a, b) ==
  LET ks == SetToSortSeq(DOMAIN a \cup DOMAIN b, <)
      f(k) == IF k \notin DOMAIN b THEN Out("rem", k, a[k], 0)
              ELSE IF k \notin DOMAIN a THEN Out("add", k, 0, b[k]) ELSE Out("chg", k, a[k], b[k])
  IN SelectSeq([i \in 1..Len(ks) |-> f(ks[i])], LAMBDA e: e[1] # "chg" \/ e[3] # e[4])

\* helpers for recorded runs: pair lists to maps, the numeric encoding of entry kinds (1 add, 2 rem, 3 chg)
TakeD(sq, n) == SubSeq(sq, 1, IF n > Len(sq) THEN Len(sq) ELSE n)
ToMap(ps) == [k \in {ps[i][1] : i \in DOMAIN ps} |-> (CHOOSE i \in DOMAIN ps : ps[i][1] = k) ]
MapOf(ps) == LET idx == ToMap(ps) IN [k \in DOMAIN idx |-> ps[idx[k]][2]]
KindNo(s) == IF s = "add" THEN 1 ELSE IF s = "rem" THEN 2 ELSE 3
Num(seq) == [i \in DOMAIN seq |-> <<KindNo(seq[i][1]), seq[i][2], seq[i][3], seq[i][4]>>]

=============================================================================
