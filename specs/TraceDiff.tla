----------------------------- MODULE TraceDiff -----------------------------
(* Validation of diff runs recorded from the real code (harness family "diff").
   Every event is one ordered pair of trees with everything the three diff
   interfaces reported.  The verdict predicates are the property statements
   evaluated against the independent oracle (ModelDiff on the two maps, Reach
   on the decoded persisted trees); in addition the transcribed machine of
   MastDiffOps is run on the same pair and compared with the recording, as a
   measure of how faithfully the specification follows the code.           *)
EXTENDS MastDiffOps, Json

Trace == ndJsonDeserialize("trace.ndjson")

VARIABLES l, viol, stat
tvars == <<l, viol, stat>>

Stat0 == [events |-> 0, big |-> 0, entries |-> 0, nonempty |-> 0, stops |-> 0, fails |-> 0, linkpairs |-> 0, counted |-> 0,
          same |-> 0, machine_out_exact |-> 0, machine_out_other |-> 0, machine_links_exact |-> 0, machine_links_other |-> 0,
          machine_loads_exact |-> 0, machine_loads_other |-> 0, emptied |-> 0, nilold |-> 0, maxd |-> 0]
TInit == l = 1 /\ viol = {} /\ stat = Stat0

Ev == Trace[l]
V(p, why) == [p |-> p, l |-> l, tr |-> Ev.id, why |-> why, h |-> 0]
Bump(s, f) == [s EXCEPT ![f] = @ + 1]
BumpIf(s, c, f) == IF c THEN Bump(s, f) ELSE s

C06(e) ==
  IF e.big THEN (IF e.cbres # "ok" THEN {V("C06", "entry diff of two large trees is not the difference of their maps")} ELSE {})
  ELSE LET MD == Num(ModelDiff(MapOf(e.mo), MapOf(e.mn)))
       IN (IF e.cbres # "ok" THEN {V("C06", "DiffIter fails on a healthy store")}
           ELSE IF e.cb # MD THEN {V("C06", "DiffIter does not report exactly the differing keys, once each, in order")} ELSE {})
          \cup (IF e.againcb = "bad" THEN {V("C06", "an entry diff that follows diffs stopped early by their callbacks does not report the same differences")} ELSE {})
          \cup (IF e.curres # "ok" THEN {V("C06", "NextEntry fails on a healthy store")}
                ELSE IF e.cur # MD THEN {V("C06", "the cursor interface disagrees with the difference of the maps")}
                ELSE IF ~e.curtail THEN {V("C06", "NextEntry does not keep returning ErrNoMoreDiffs at the end")} ELSE {})
          \cup UNION {IF e.stops[i].res # "ok" \/ e.stops[i].seq # TakeD(MD, e.stops[i].at)
                      THEN {V("C06", "a diff stopped by its callback errs or has not reported exactly the first differences")} ELSE {}
                      : i \in DOMAIN e.stops}
          \cup UNION {IF e.fails[i].res # "err" \/ e.fails[i].seq # TakeD(MD, e.fails[i].at)
                      THEN {V("C06", "a callback error is not returned, or the diff went on after it")} ELSE {}
                      : i \in DOMAIN e.fails}

OldReach(e) == IF e.hasold THEN ReachT(e.old) ELSE {}
C07(e) ==
  IF ~e.counted THEN {}
  ELSE IF e.lres # "ok" THEN {V("C07", IF e.big THEN "node diff of two large versions misses, repeats or invents a node" ELSE "DiffLinks fails on a healthy store")}
  ELSE (IF e.sync # "ok" THEN {V("C07", "a store holding the old version plus the added nodes cannot load the new version")} ELSE {})
       \cup (IF e.againlinks = "bad" THEN {V("C07", "a node diff that follows diffs stopped early by their callbacks does not report the same nodes")} ELSE {})
       \cup (IF e.faultbad > 0 THEN {V("C07", "a node diff that met one failing Load reports success with nodes missing or added")} ELSE {})
       \cup (IF ~e.terms THEN {} ELSE
             LET A == ToSet(e.added)  R == ToSet(e.removed)  RN == ReachT(e.new)  RO == OldReach(e)
             IN (IF ~((RN \ RO) \subseteq A) THEN {V("C07", "a node only the new version reaches is not reported as added")} ELSE {})
                \cup (IF ~(A \subseteq RN) THEN {V("C07", "a node outside the new version is reported as added")} ELSE {})
                \cup (IF Cardinality(A) # e.addedn THEN {V("C07", "an added node is reported more than once")} ELSE {})
                \cup (IF ~((RO \ RN) \subseteq R) THEN {V("C07", "a node only the old version reaches is not reported as removed")} ELSE {})
                \cup (IF ~(R \subseteq RO) THEN {V("C07", "a node outside the old version is reported as removed")} ELSE {})
                \cup (IF Cardinality(R) # e.removedn THEN {V("C07", "a removed node is reported more than once")} ELSE {}))

DOf(e) == IF e.terms THEN Cardinality((OldReach(e) \ ReachT(e.new)) \cup (ReachT(e.new) \ OldReach(e))) ELSE e.d
C15(e) ==
  IF ~e.counted THEN {}
  \* (recorded finding C15-shifted-common-subtrees: a subtree that both versions contain, but at different places - another level
  \* when the heights differ, other bounding keys when a node on the changed path gained or lost its first key - is not recognised by
  \* the level-by-level walk and is descended along its edge. Nodes of that kind that were read are logged (eshift / lshift); the
  \* bound is judged on the other reads, and an excess that they alone explain is reported under its own name)
  ELSE (IF e.eloads - e.eshift > 2 * DOf(e) + 2 THEN {V("C15", "entry diff reads more than 2*D+2 distinct nodes")}
        ELSE IF e.eloads > 2 * DOf(e) + 2 THEN {V("C15", "entry diff reads common subtrees that sit at different places in the two versions (more than 2*D+2 distinct nodes in all)")} ELSE {})
       \cup (IF e.lres # "ok" THEN {}
             ELSE IF e.lloads - e.lshift > 2 * DOf(e) + 2 THEN {V("C15", "node diff reads more than 2*D+2 distinct nodes")}
             ELSE IF e.lloads > 2 * DOf(e) + 2 THEN {V("C15", "node diff reads common subtrees that sit at different places in the two versions (more than 2*D+2 distinct nodes in all)")} ELSE {})
       \cup (IF e.curres # "ok" THEN {}
             ELSE IF e.cloads - e.cshift > 2 * DOf(e) + 2 THEN {V("C15", "cursor diff reads more than 2*D+2 distinct nodes")}
             ELSE IF e.cloads > 2 * DOf(e) + 2 THEN {V("C15", "entry diff reads common subtrees that sit at different places in the two versions (more than 2*D+2 distinct nodes in all)")} ELSE {})
       \cup (IF e.same /\ (e.eloads > 0 \/ e.lloads > 0 \/ (e.curres = "ok" /\ e.cloads > 0)) THEN {V("C15", "diff of a version with itself reads nodes")} ELSE {})

Machine(e) == Run(InitDS(e.old, e.new, e.hasold, FALSE), e.cfg.layers, TRUE)

TDiff == /\ l <= Len(Trace)
         /\ LET e == Ev
                v == C06(e) \cup C07(e) \cup C15(e)
                s1 == Bump(stat, "events")
                s2 == BumpIf(s1, e.big, "big")
                s3 == [s2 EXCEPT !.entries = @ + Len(e.cb), !.stops = @ + Len(e.stops), !.fails = @ + Len(e.fails)]
                s4 == BumpIf(BumpIf(BumpIf(s3, e.counted, "counted"), e.terms, "linkpairs"), e.same, "same")
                s5 == BumpIf(BumpIf(BumpIf(s4, Len(e.cb) > 0, "nonempty"), e.mode \in {"emptied-old", "emptied-new"}, "emptied"), ~e.hasold, "nilold")
                s6 == IF ~e.terms THEN s5
                      ELSE LET m == Machine(e)
                           IN BumpIf(BumpIf(BumpIf(BumpIf(BumpIf(BumpIf(s5,
                                Num(Real(m.out)) = e.cb, "machine_out_exact"), Num(Real(m.out)) # e.cb, "machine_out_other"),
                                m.added = e.added /\ m.removed = e.removed, "machine_links_exact"),
                                ~(m.added = e.added /\ m.removed = e.removed), "machine_links_other"),
                                Cardinality(m.loads) = e.lloads, "machine_loads_exact"), Cardinality(m.loads) # e.lloads, "machine_loads_other")
                s7 == IF e.counted /\ DOf(e) > s6.maxd THEN [s6 EXCEPT !.maxd = DOf(e)] ELSE s6
            IN viol' = viol \cup v /\ stat' = s7
         /\ l' = l + 1
TSpec == TInit /\ [][TDiff]_tvars
Report == (l = Len(Trace) + 1) => PrintT(<<"REPORT", ToJson([viol |-> viol, stat |-> stat, consumed |-> l - 1])>>)
=============================================================================
