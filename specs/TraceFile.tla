------------------------------ MODULE TraceFile ------------------------------
(* Validation of the crash / I/O-error enumeration of the file store (harness
   family "filecrash", C17).  One event = the real file.Persist.Store run in a
   child process whose write was cut at byte `limit` (the process killed inside
   the write, or the write failing with an error), then, after "restart":
   the load of the name, a second Store of the same node, the load again.
   The three clauses are the invariants of FileStore.tla read off the log:
     LoadIsCompleteOrMissing   load1 is "not found" or the complete bytes
     SuccessMeansComplete      a child that reported success left the complete bytes
     RestoreRepairs            the second Store succeeds and the complete bytes are loadable *)
EXTENDS Integers, Sequences, FiniteSets, TLC, Json
Trace == ndJsonDeserialize("trace.ndjson")
VARIABLES l, viol, stat
tvars == <<l, viol, stat>>
Stat0 == [enospc |-> 0, trees |-> 0, treekilled |-> 0, treeerr |-> 0, treeretried |-> 0, events |-> 0, killed |-> 0, ioerr |-> 0, completed |-> 0, broken |-> 0, cutmid |-> 0, leftovers |-> 0, offsets |-> 0]
TInit == l = 1 /\ viol = {} /\ stat = Stat0
Ev == Trace[l]
V(why) == [p |-> "C17", l |-> l, tr |-> Ev.id, why |-> why, h |-> 0]
BumpIf(s, c, f) == IF c THEN [s EXCEPT ![f] = @ + 1] ELSE s
TCrash == /\ l <= Len(Trace) /\ Ev.op = "fcrash"
          /\ LET e == Ev
                 complete1 == e.load1 = e.len /\ e.same1
                 v == IF e.child = "broken" THEN {} ELSE
                      (IF e.load1 # -1 /\ ~complete1 THEN {V("after a cut-short write the name loads to partial contents")} ELSE {})
                      \cup (IF e.child = "ok" /\ ~complete1 THEN {V("a Store that reported success did not leave the complete bytes")} ELSE {})
                      \* C18 (errors surface): the write failed with an I/O error inside the child, so its Store must not have reported success
                      \cup (IF e.mode = "ioerr" /\ e.limit < e.len /\ e.child = "ok"
                            THEN {[p |-> "C18", l |-> l, tr |-> e.id, why |-> "the file backend does not return a failed write to the caller of Store", h |-> 0]} ELSE {})
                      \* C18: a name whose only write returned an error was never written: loading it gives an error, not data
                      \cup (IF e.mode \in {"ioerr", "enospc", "transient"} /\ e.child = "err" /\ e.load1 # -1
                            THEN {[p |-> "C18", l |-> l, tr |-> e.id, why |-> "loading a name whose only write returned an error gives data instead of an error", h |-> 0]} ELSE {})
                      \cup (IF e.restore # "ok" THEN {V("storing the node again after the failure does not succeed")}
                            ELSE IF ~(e.load2 = e.len /\ e.same2) THEN {V("storing the node again does not repair it (skipped because a file exists)")} ELSE {})
                 s == BumpIf(BumpIf(BumpIf(BumpIf(BumpIf(BumpIf([stat EXCEPT !.events = @ + 1], e.child = "killed", "killed"), e.child = "err", "ioerr"),
                        e.child = "ok", "completed"), e.child = "broken", "broken"), e.limit > 0 /\ e.limit < e.len, "cutmid"), e.extra > 0, "leftovers")
                 s9 == BumpIf(s, e.mode = "enospc" /\ e.child = "err", "enospc")
             IN viol' = viol \cup v /\ stat' = s9
          /\ l' = l + 1
(* The same at the level of a tree: MakeRoot over the file store is cut short at byte `limit` of a node file; in the I/O-error modes
   the same tree object (with or without a node cache) persists again once the condition is gone, in the crash modes the process
   dies; then, after "restart", a new process persists the same tree into the same directory.                             *)
TTree == /\ l <= Len(Trace) /\ Ev.op = "ftree"
         /\ LET e == Ev
                v == IF e.child = "broken" THEN {} ELSE
                     (IF e.partial > 0 THEN {V("after a cut-short MakeRoot a node name loads to contents that are not the node")} ELSE {})
                     \cup (IF e.child = "ok" /\ (e.res1 = "ok" \/ e.res2 = "ok") /\ e.missing + e.corrupt > 0
                           THEN {V("a MakeRoot that reported success (possibly on a second attempt) left a node of the root missing or incomplete in the file store")} ELSE {})
                     \cup (IF e.child = "ok" /\ e.res2 # "ok" THEN {V("persisting again once the I/O error is gone does not succeed")} ELSE {})
                     \cup (IF e.restore # "ok" THEN {V("persisting the tree again after restart does not succeed")}
                           ELSE IF ~e.sameroot \/ e.missing2 + e.corrupt2 > 0 THEN {V("persisting the tree again after restart does not repair it (a node is skipped because something exists)")} ELSE {})
                s == BumpIf(BumpIf(BumpIf([stat EXCEPT !.trees = @ + 1], e.child = "killed", "treekilled"), e.child = "ok" /\ e.res1 = "err", "treeerr"),
                            e.child = "ok" /\ e.res1 = "err" /\ e.res2 = "ok", "treeretried")
            IN viol' = viol \cup v /\ stat' = s
         /\ l' = l + 1
TSpec == TInit /\ [][TCrash \/ TTree]_tvars
Report == (l = Len(Trace) + 1) => PrintT(<<"REPORT", ToJson([viol |-> viol, stat |-> stat, consumed |-> l - 1])>>)
=============================================================================
