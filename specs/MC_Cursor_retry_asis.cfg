SPECIFICATION Spec
CONSTANTS
 NK = 4
 MaxLayer = 2
 MaxH = 2
 Restore = FALSE
 AsIs = FALSE
INVARIANTS RetrySafe
CHECK_DEADLOCK FALSE
