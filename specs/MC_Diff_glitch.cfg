SPECIFICATION Spec
CONSTANTS
 NK = 3
 NV = 1
 MaxLayer = 2
 MaxH = 2
 PushNilRoot = FALSE
 MaxG = 8
 Swallow = FALSE
 Stepwise = FALSE
INVARIANTS EntryPrefix EntryDiffExact LinksWithin LinksComplete
CHECK_DEADLOCK FALSE
