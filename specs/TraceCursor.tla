---------------------------- MODULE TraceCursor ----------------------------
(* Validation of cursor walks and SeekIter runs recorded from the real code
   (harness family "cursor") against the sorted sequence of the tree's entries
   (the oracle of C10), plus a comparison with the transcribed path machine of
   MastCursorOps on the decoded persisted tree.                            *)
EXTENDS MastCursorOps, Json

Trace == ndJsonDeserialize("trace.ndjson")
VARIABLES l, viol, stat
tvars == <<l, viol, stat>>
Stat0 == [events |-> 0, walks |-> 0, moves |-> 0, offend |-> 0, seeks |-> 0, seekabsent |-> 0, stops |-> 0, empty |-> 0, persisted |-> 0,
          machine_exact |-> 0, machine_other |-> 0, seek_machine_exact |-> 0, seek_machine_other |-> 0, maxheight |-> 0]
TInit == l = 1 /\ viol = {} /\ stat = Stat0
Ev == Trace[l]
V(p, why) == [p |-> p, l |-> l, tr |-> Ev.id, why |-> why, h |-> 0]


\* the transcribed machine on the decoded tree
StartPath(root, ph, w) == IF w.start = "min" THEN Min_(Open(root, ph)) ELSE IF w.start = "max" THEN Max_(Open(root, ph), FALSE)
                          ELSE Ceil_(Open(root, ph), w.p, FALSE)
RECURSIVE PathSeq(_, _, _)
PathSeq(path, moves, j) == IF j > Len(moves) THEN <<>>
                           ELSE LET r == IF moves[j] = "F" THEN Forward_(path) ELSE Backward_(path, FALSE)
                                IN <<G(Get_(r.p))>> \o PathSeq(r.p, moves, j + 1)
MachineGets(root, ph, w) == LET r == StartPath(root, ph, w) IN <<G(Get_(r.p))>> \o PathSeq(r.p, w.moves, 1)

WalkViol(S, w) ==
  IF w.res = "panic" THEN {V("C10", "a cursor call panics")}
  ELSE IF w.res # "ok" THEN {V("C10", "a cursor call fails on a healthy store")}
  \* judged up to and including the first "no entry": what further moves do once the cursor is off an end is not part of C10
  ELSE IF UpToOff(w.gets) # UpToOff(Expected(S, w)) \/ (Len(w.gets) # Len(Expected(S, w))) THEN {V("C10", "cursor does not visit the keys a sorted list would give, or misreports the ends")} ELSE {}
SeekViol(S, s) ==
  (IF s.res = "panic" THEN {V("C10", "SeekIter panics")}
   ELSE IF s.res # "ok" THEN {V("C10", "SeekIter fails on a healthy store")}
   ELSE IF s.ents # From(S, s.p) THEN {V("C10", "SeekIter does not yield exactly the entries not smaller than the probe")} ELSE {})
  \cup (IF s.stop = 0 THEN {}
        ELSE IF s.sres # "ok" THEN {V("C10", "SeekIter returns an error when the callback signals done")}
        ELSE IF s.sents # Take(From(S, s.p), s.stop) THEN {V("C10", "SeekIter goes on, or yields something else, after the callback signals done")} ELSE {})

TCur == /\ l <= Len(Trace)
        /\ LET e == Ev
               S == e.ents
               v == UNION {WalkViol(S, e.walks[i]) : i \in DOMAIN e.walks} \cup UNION {SeekViol(S, e.seeks[i]) : i \in DOMAIN e.seeks}
               nm == IF ~e.terms THEN 0 ELSE Cardinality({i \in DOMAIN e.walks : e.walks[i].res = "ok" /\ MachineGets(e.term, e.placeholder, e.walks[i]) = e.walks[i].gets})
               nw == IF ~e.terms THEN 0 ELSE Cardinality({i \in DOMAIN e.walks : e.walks[i].res = "ok"})
               ns == IF ~e.terms THEN 0 ELSE Cardinality({i \in DOMAIN e.seeks : e.seeks[i].res = "ok" /\ SeekIter_(e.term, e.seeks[i].p) = e.seeks[i].ents})
               nso == IF ~e.terms THEN 0 ELSE Cardinality({i \in DOMAIN e.seeks : e.seeks[i].res = "ok"})
               present == {S[i][1] : i \in DOMAIN S}
           IN /\ viol' = viol \cup v
              /\ stat' = [stat EXCEPT !.events = @ + 1, !.walks = @ + Len(e.walks), !.seeks = @ + Len(e.seeks),
                                      !.moves = @ + e.nmoves, !.offend = @ + e.noff,
                                      !.seekabsent = @ + Cardinality({i \in DOMAIN e.seeks : e.seeks[i].p \notin present}),
                                      !.stops = @ + Cardinality({i \in DOMAIN e.seeks : e.seeks[i].stop > 0}),
                                      !.empty = @ + (IF Len(S) = 0 THEN 1 ELSE 0), !.persisted = @ + (IF e.terms THEN 1 ELSE 0),
                                      !.machine_exact = @ + nm, !.machine_other = @ + (nw - nm),
                                      !.seek_machine_exact = @ + ns, !.seek_machine_other = @ + (nso - ns),
                                      !.maxheight = IF e.height > @ THEN e.height ELSE @]
        /\ l' = l + 1
TSpec == TInit /\ [][TCur]_tvars
Report == (l = Len(Trace) + 1) => PrintT(<<"REPORT", ToJson([viol |-> viol, stat |-> stat, consumed |-> l - 1])>>)
=============================================================================
