SPECIFICATION Spec
CONSTANTS
 NK = 5
 NV = 1
 BF = 2
 MaxLayer = 2
 NH = 1
 MaxRoots = 0
 MaxMods = 2
 TrackStore = FALSE
 AsIsShrink = FALSE
INVARIANTS MapOK HeightOK CanonOK ShapeOK Incremental CleanMeansUnchanged
PROPERTIES ReadOnlyIsStutter Immutability PathReads
CHECK_DEADLOCK FALSE
