------------------------------ MODULE MastDiff ------------------------------
(* The diff machine of jrhy/mast (diff.go): two explicit in-order traversal
   stacks (diffOne, 107-255), the per-height memo that suppresses repeated
   link notifications (alreadyNotified, 257-293) and load accounting.
   Trees are stripped terms (MastCore); a persisted node's name is its term,
   so "links equal" is term equality when Shortcut holds (persisted trees
   compare names, in-memory trees compare pointers: Shortcut = FALSE models
   two structurally equal trees that do not share node objects).

   Design-level runs enumerate EVERY ordered pair of trees over the bounded
   universe (every contents x every layer assignment x every height, which
   also yields key-less pass-through nodes) and either run the machine to
   completion in one step (Stepwise = FALSE) or expose every diffOne call as
   a step (Stepwise = TRUE), so that the properties of a diff that is stopped
   early are invariants of every intermediate state.                        *)
EXTENDS MastDiffOps

CONSTANTS NK, NV, MaxLayer, MaxH,
          PushNilRoot,   \* TRUE: the pinned release pushes a nil top link as an item (non-vacuity run)
          Stepwise,
          MaxG,          \* the duplicate check whose Load fails once ranges over 0..MaxG (0 = no failure)
          Swallow        \* TRUE: the behaviour before fix e203d09 (non-vacuity run)

Keys == 1..NK
Vals == 1..NV

(* ---------- exhaustive enumeration of pairs ---------- *)
Maps == UNION {[S -> Vals] : S \in SUBSET Keys}

VARIABLES layer, mo, mn, ho, hn, hasOld, sc, ds
vars == <<layer, mo, mn, ho, hn, hasOld, sc, ds>>

old == Canon(SortedPairs(mo), layer, ho)
new == Canon(SortedPairs(mn), layer, hn)
MO == IF hasOld THEN mo ELSE <<>>       \* a nil old tree is the empty map

Init == /\ layer \in [Keys -> 0..MaxLayer]
        /\ mo \in Maps /\ mn \in Maps
        /\ ho \in 0..MaxH /\ hn \in 0..MaxH
        /\ hasOld \in BOOLEAN /\ (~hasOld => (mo = <<>> /\ ho = 0))
        /\ sc \in BOOLEAN
        /\ \E g \in 0..MaxG : ds = InitDSF(Canon(SortedPairs(mo), layer, ho), Canon(SortedPairs(mn), layer, hn), hasOld, PushNilRoot, g, Swallow)
Next == /\ ~ds.done
        /\ ds' = IF Stepwise THEN Step(ds, layer, sc) ELSE Run(ds, layer, sc)
        /\ UNCHANGED <<layer, mo, mn, ho, hn, hasOld, sc>>
Spec == Init /\ [][Next]_vars

D == Cardinality((ReachT(old) \ ReachT(new)) \cup (ReachT(new) \ ReachT(old)))
OldReach == IF hasOld THEN ReachT(old) ELSE {}
DD == Cardinality((OldReach \ ReachT(new)) \cup (ReachT(new) \ OldReach))

\* C06, in every intermediate state: what has been reported so far is a prefix of the exact difference
\* (so a diff stopped after any number of callbacks has reported exactly the first differences, in order)
EntryPrefix == (ds.g = 0 => ~ds.err) /\ (~ds.err => IsPrefix(Real(ds.out), ModelDiff(MO, mn)))
EntryDiffExact == (ds.done /\ ~ds.err) => Real(ds.out) = ModelDiff(MO, mn)
\* C07
LinksWithin == /\ ToSet(ds.added) \subseteq ReachT(new) /\ ToSet(ds.removed) \subseteq OldReach
               /\ Cardinality(ToSet(ds.added)) = Len(ds.added) /\ Cardinality(ToSet(ds.removed)) = Len(ds.removed)
LinksComplete == (ds.done /\ ~ds.err) => /\ (ReachT(new) \ OldReach) \subseteq ToSet(ds.added)
                            /\ (OldReach \ ReachT(new)) \subseteq ToSet(ds.removed)
\* C15 (persisted versions: names compare equal, Shortcut)
\* (a diff that a failing Load ends with an error has reported a prefix; one that goes on must still report every node once)
ReadBound == sc => Cardinality(ds.loads) <= 2 * DD + 2
SameNoLoads == (sc /\ hasOld /\ old = new) => ds.loads = {}
Terminates == <>(ds.done)
=============================================================================
