----------------------------- MODULE MastTrans -----------------------------
(* Transition enumeration (spec -> code): TLC enumerates EVERY single
   modification of EVERY canonical state of the bounded universe -- every
   layer assignment x every set of present keys x every insert of an absent
   key, update of a present key and delete of a present key -- computes the
   successor with the step functions of MastSteps, checks it against the
   independent reference, and prints the case as one JSON line.  The harness
   reaches the state on the real code (ascending inserts; persisted and
   reloaded, or still in memory), applies the operation and persists; the
   recorded events are validated by TraceMast.  Because the tree of a version
   is a function of layers and contents (C04), one path per state suffices:
   this is one implementation test per transition of the state graph.      *)
EXTENDS MastSteps, Json
CONSTANTS NK, BF, MaxLayer,
          OnlyTall   \* TRUE: print only the transitions that start or end at height >= 2 (every one is still checked)
Keys == 1..NK
VARIABLES layer, present, op, key
vars == <<layer, present, op, key>>

Init == /\ layer \in [Keys -> 0..MaxLayer]
        /\ present \in SUBSET Keys
        /\ op \in {"ins", "upd", "del"}
        /\ key \in Keys
        /\ (op = "ins") = (key \notin present)
Spec == Init /\ [][FALSE]_vars

RECURSIVE Build(_, _)
Build(hr, ks) == IF ks = <<>> THEN hr ELSE Build(DoInsert(hr, FALSE, FALSE, Head(ks), 1, layer, BF).hr, Tail(ks))
Before == Build(Fresh, SetToSortSeq(present, <))
After == IF op = "del" THEN DoDelete(Before, key, layer, BF, FALSE).hr
         ELSE DoInsert(Before, key \in present, FALSE, key, 2, layer, BF).hr
Model == [k \in (IF op = "del" THEN present \ {key} ELSE present \cup {key}) |-> IF k = key THEN 2 ELSE 1]
\* the successor computed by the transcription is the canonical tree of the new contents at the rule's height
StepOK == /\ After.height = RuleHeight(DOMAIN Model, layer, BF)
          /\ Strip(After.root) = Canon(SortedPairs(Model), layer, After.height)
Emit == (OnlyTall /\ Before.height < 2 /\ After.height < 2) \/ PrintT(<<"BEH", ToJson([bf |-> BF, layers |-> layer, present |-> SetToSortSeq(present, <), op |-> op, k |-> key,
                                 height |-> After.height, prevheight |-> Before.height])>>)
=============================================================================
