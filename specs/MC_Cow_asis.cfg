SPECIFICATION Spec
CONSTANTS
 Trees = {1, 2}
 MaxObj = 6
 Names = {1, 2}
 Deviations = "asis"
 UseCache = TRUE
 Evicting = TRUE
INVARIANTS SharedObjectsNeverWritten DirtyImpliesPrivate UnsharedHasOneOwner CacheAgreesWithStore
CHECK_DEADLOCK FALSE
