------------------------------- MODULE Format -------------------------------
(* The published serialized format of jrhy/mast, as a specification:
     - node bytes for both node formats (codec.go 10-27, 105-131; store.go
       211-240; default JSON marshaler) for the scalar key/value types,
     - the layer of every built-in key type at a branch factor
       (key.go 94-156: integer rule; CRC-64/ECMA of the bytes for strings and
       byte slices), computed bit by bit / limb by limb because TLC's integers
       are 32-bit,
     - the default key order (key.go 20-93),
     - the defaults of a new tree (pub.go 651-670).
   A byte string is a sequence of 0..255.  Abstract node:
     [nf, kt, vt, keys, vals, links]   kt, vt \in {"int", "string", "bytes"}
   where an int key/value is an integer (|x| < 2^31; covers int, int64, uint,
   uint64 whose JSON rendering is the same decimal), a string or bytes
   key/value is a byte sequence (strings: plain ASCII that Go's JSON encoder
   does not escape), links are byte sequences (names), <<>> for nil.        *)
EXTENDS Integers, Sequences, FiniteSets, TLC

RECURSIVE Uvarint(_)
Uvarint(n) == IF n < 128 THEN <<n>> ELSE <<(n % 128) + 128>> \o Uvarint(n \div 128)
RECURSIVE Digits(_)
Digits(n) == IF n < 10 THEN <<48 + n>> ELSE Digits(n \div 10) \o <<48 + (n % 10)>>
JsonInt(i) == IF i < 0 THEN <<45>> \o Digits(0 - i) ELSE Digits(i)
\* encoding/json escapes <, > and & (HTML-safe rendering) as \u003c, \u003e, \u0026; other plain ASCII is copied
EscByte(b) == IF b = 60 THEN <<92,117,48,48,51,99>> ELSE IF b = 62 THEN <<92,117,48,48,51,101>> ELSE IF b = 38 THEN <<92,117,48,48,50,54>> ELSE <<b>>
RECURSIVE Esc(_)
Esc(bs) == IF bs = <<>> THEN <<>> ELSE EscByte(Head(bs)) \o Esc(Tail(bs))
JsonStr(bs) == <<34>> \o Esc(bs) \o <<34>>
RECURSIVE Concat(_)
Concat(ss) == IF ss = <<>> THEN <<>> ELSE Head(ss) \o Concat(Tail(ss))
RECURSIVE Join(_, _)
Join(ss, sep) == IF ss = <<>> THEN <<>> ELSE IF Len(ss) = 1 THEN ss[1] ELSE ss[1] \o sep \o Join(Tail(ss), sep)

\* standard base64 with padding (encoding/json renders []byte this way)
B64Char(x) == IF x < 26 THEN 65 + x ELSE IF x < 52 THEN 97 + (x - 26) ELSE IF x < 62 THEN 48 + (x - 52) ELSE IF x = 62 THEN 43 ELSE 47
RECURSIVE Base64(_)
Base64(bs) ==
  IF bs = <<>> THEN <<>>
  ELSE IF Len(bs) = 1 THEN <<B64Char(bs[1] \div 4), B64Char((bs[1] % 4) * 16), 61, 61>>
  ELSE IF Len(bs) = 2 THEN <<B64Char(bs[1] \div 4), B64Char((bs[1] % 4) * 16 + bs[2] \div 16), B64Char((bs[2] % 16) * 4), 61>>
  ELSE <<B64Char(bs[1] \div 4), B64Char((bs[1] % 4) * 16 + bs[2] \div 16), B64Char((bs[2] % 16) * 4 + bs[3] \div 64), B64Char(bs[3] % 64)>>
       \o Base64(SubSeq(bs, 4, Len(bs)))

\* the default marshaler's image of one key or value
Elem(t, x) == IF t = "nil" THEN <<110, 117, 108, 108>>     \* a nil value: the marshaler's "null", in both formats
              ELSE IF t = "int" THEN JsonInt(x) ELSE IF t = "string" THEN JsonStr(x) ELSE JsonStr(Base64(x))

\* ---------- v1.1.5binary: three length-prefixed lists ----------
Framed(items) == Uvarint(Len(items)) \o Concat([i \in 1..Len(items) |-> Uvarint(Len(items[i])) \o items[i]])
AllNil(links) == \A i \in 1..Len(links): links[i] = <<>>
EncodeBin(e) ==
  Framed([i \in 1..Len(e.keys) |-> Elem(e.kt, e.keys[i])]) \o
  Framed([i \in 1..Len(e.vals) |-> Elem(e.vt, e.vals[i])]) \o
  (IF AllNil(e.links) THEN Uvarint(0) ELSE Framed(e.links))

\* ---------- v1marshaler: JSON of {"Key":[..],"Value":[..],"Link":[..]} ----------
A_Key == <<123,34,75,101,121,34,58,91>>                  \* {"Key":[
A_Value == <<93,44,34,86,97,108,117,101,34,58,91>>       \* ],"Value":[
A_Link == <<93,44,34,76,105,110,107,34,58,91>>           \* ],"Link":[
A_End == <<93,125>>                                      \* ]}
A_Null == <<110,117,108,108>>
Comma == <<44>>
EncodeV1(e) ==
  A_Key \o Join([i \in 1..Len(e.keys) |-> Elem(e.kt, e.keys[i])], Comma) \o
  A_Value \o Join([i \in 1..Len(e.vals) |-> Elem(e.vt, e.vals[i])], Comma) \o
  (IF AllNil(e.links) THEN <<>> ELSE
     A_Link \o Join([i \in 1..Len(e.links) |-> IF e.links[i] = <<>> THEN A_Null ELSE JsonStr(e.links[i])], Comma)) \o
  A_End
Encode(e) == IF e.nf = "bin" THEN EncodeBin(e) ELSE EncodeV1(e)

\* ---------- layers ----------
Abs(i) == IF i < 0 THEN 0 - i ELSE i
RECURSIVE IntLayerR(_, _, _)
IntLayerR(v, bf, l) == IF v # 0 /\ v % bf = 0 THEN IntLayerR(v \div bf, bf, l + 1) ELSE l
IntLayer(v, bf) == IntLayerR(Abs(v), bf, 0)

Zero64 == [i \in 1..64 |-> 0]
Xor(a, b) == [i \in 1..64 |-> (a[i] + b[i]) % 2]
Shr1(a) == [i \in 1..64 |-> IF i = 64 THEN 0 ELSE a[i+1]]
Not64(a) == [i \in 1..64 |-> 1 - a[i]]
HexDigits == <<12,9,6,12,5,7,9,5,13,7,8,7,0,15,4,2>>      \* 0xC96C5795D7870F42, the reversed ECMA polynomial
Poly == [i \in 1..64 |-> (HexDigits[16 - ((i-1) \div 4)] \div (2^((i-1) % 4))) % 2]
ByteBits(x) == [i \in 1..64 |-> IF i <= 8 THEN (x \div (2^(i-1))) % 2 ELSE 0]
RECURSIVE Round(_, _)
Round(c, n) == IF n = 0 THEN c ELSE Round(IF c[1] = 1 THEN Xor(Shr1(c), Poly) ELSE Shr1(c), n-1)
RECURSIVE Crc(_, _)
Crc(c, bytes) == IF bytes = <<>> THEN c ELSE Crc(Round(Xor(c, ByteBits(Head(bytes))), 8), Tail(bytes))
Crc64(bytes) == Not64(Crc(Not64(Zero64), bytes))
ToBytesMSB(c) == [j \in 1..8 |-> LET b(k) == c[(8-j)*8+k] IN b(1)+2*b(2)+4*b(3)+8*b(4)+16*b(5)+32*b(6)+64*b(7)+128*b(8)]
RECURSIVE DivSmall(_, _, _, _)
DivSmall(bs, d, rem, acc) == IF bs = <<>> THEN <<acc, rem>> ELSE LET cur == rem * 256 + Head(bs) IN DivSmall(Tail(bs), d, cur % d, Append(acc, cur \div d))
IsZero(bs) == \A i \in 1..Len(bs): bs[i] = 0
RECURSIVE BigLayer(_, _, _)
BigLayer(bs, bf, l) == IF IsZero(bs) THEN l ELSE LET qr == DivSmall(bs, bf, 0, <<>>) IN IF qr[2] # 0 THEN l ELSE BigLayer(qr[1], bf, l+1)
BlobLayer(bytes, bf) == BigLayer(ToBytesMSB(Crc64(bytes)), bf, 0)
KeyLayer(kt, k, bf) == IF kt = "int" THEN IntLayer(k, bf) ELSE BlobLayer(k, bf)

\* ---------- default order: -1, 0, 1 ----------
RECURSIVE BytesCmp(_, _)
BytesCmp(a, b) == IF a = <<>> /\ b = <<>> THEN 0 ELSE IF a = <<>> THEN -1 ELSE IF b = <<>> THEN 1
                  ELSE IF a[1] < b[1] THEN -1 ELSE IF a[1] > b[1] THEN 1 ELSE BytesCmp(Tail(a), Tail(b))
KeyCmp(kt, a, b) == IF kt = "int" THEN (IF a < b THEN -1 ELSE IF a > b THEN 1 ELSE 0) ELSE BytesCmp(a, b)

\* ---------- defaults of a new tree ----------
DefaultBranchFactor == 16
DefaultNodeFormat == "v1.1.5binary"
LegacyNodeFormat == "v1marshaler"     \* what a root record without NodeFormat means
=============================================================================
