SPECIFICATION Spec
CONSTANTS
 NK = 5
 BF = 3
 MaxLayer = 2
INVARIANTS StepOK Emit
CHECK_DEADLOCK FALSE
