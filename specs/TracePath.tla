------------------------------ MODULE TracePath ------------------------------
(* C16 on large persisted trees: the distinct Load calls of every probe operation, run on a freshly opened handle without any
   cache, against the stated bounds.  height is the height the code reports before the call, h2 after it.               *)
EXTENDS Integers, Sequences, FiniteSets, TLC, Json
Trace == ndJsonDeserialize("trace.ndjson")
VARIABLES l, viol, stat
tvars == <<l, viol, stat>>
Stat0 == [events |-> 0, load |-> 0, clone |-> 0, cursor |-> 0, get |-> 0, ins |-> 0, upd |-> 0, noop |-> 0, del |-> 0, nodel |-> 0, maxheight |-> 0, maxloads |-> 0, heightchanged |-> 0]
TInit == l = 1 /\ viol = {} /\ stat = Stat0
Ev == Trace[l]
V(why) == [p |-> "C16", l |-> l, tr |-> l, why |-> why, h |-> 0]
\* (a value replacement and an insert of an equal value are inserts: the stated bound for them is 2*(height+1), whatever the code needs)
\* (opening a cursor captures - clones - the version it is opened on)
Bound(e) == IF e.kind \in {"load", "clone", "cursor"} THEN 1
            ELSE IF e.kind = "get" THEN e.height + 1
            ELSE 2 * (e.height + 1)
TStep == /\ l <= Len(Trace)
         /\ LET e == Ev
                judged == e.kind \in {"load", "clone", "cursor", "get", "upd", "noop"} \/ e.h2 = e.height     \* inserts / deletes only when the height did not change
                v == IF judged /\ e.loads > Bound(e)
                     THEN {V(CASE e.kind = "load" -> "opening a version reads more than its top node"
                               [] e.kind = "clone" -> "cloning reads more than the top node"
                               [] e.kind = "get" -> "a lookup reads more than height+1 nodes"
                               [] e.kind = "cursor" -> "opening a cursor on a persisted version (capturing it) reads more than its top node"
                               [] e.kind \in {"upd", "noop"} -> "replacing a value reads more than 2*(height+1) nodes"
                               [] OTHER -> "an insert or delete that keeps the height reads more than 2*(height+1) nodes")} ELSE {}
            IN /\ viol' = viol \cup v
               /\ stat' = [stat EXCEPT !.events = @ + 1, ![e.kind] = @ + 1, !.maxheight = IF e.height > @ THEN e.height ELSE @,
                                       !.maxloads = IF e.loads > @ THEN e.loads ELSE @, !.heightchanged = @ + (IF e.h2 # e.height THEN 1 ELSE 0)]
         /\ l' = l + 1
TSpec == TInit /\ [][TStep]_tvars
Report == (l = Len(Trace) + 1) => PrintT(<<"REPORT", ToJson([viol |-> viol, stat |-> stat, consumed |-> l - 1])>>)
=============================================================================
