SPECIFICATION Spec
CONSTANTS
 NK = 3
 NV = 1
 MaxLayer = 2
 MaxH = 1
 PushNilRoot = FALSE
 MaxG = 0
 Swallow = FALSE
 Stepwise = TRUE
INVARIANTS EntryPrefix EntryDiffExact LinksWithin LinksComplete ReadBound SameNoLoads
CHECK_DEADLOCK FALSE
