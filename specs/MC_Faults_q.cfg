SPECIFICATION FSpec
CONSTANTS
 NK = 3
 NV = 1
 BF = 2
 MaxLayer = 2
 NH = 1
 MaxRoots = 0
 MaxMods = 2
 TrackStore = FALSE
 AsIsShrink = FALSE
 Atomicity = "intended"
 LayerFallible = TRUE
INVARIANTS MapOK
PROPERTIES FailedOpIsStutter
CHECK_DEADLOCK FALSE
