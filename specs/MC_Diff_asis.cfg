SPECIFICATION Spec
CONSTANTS
 NK = 2
 NV = 2
 MaxLayer = 2
 MaxH = 2
 PushNilRoot = TRUE
 Stepwise = FALSE
INVARIANTS EntryPrefix
CHECK_DEADLOCK FALSE
