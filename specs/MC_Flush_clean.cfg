SPECIFICATION Spec
CONSTANTS
 N = 4
 GateSize = 2
 MaxFailures = 2
 MaxAttempts = 3
 Variant = "copy"
 CleanSet = {2}
 UseCache = TRUE
 ForeignCached = {}
 PublishEarly = FALSE
 CacheKeyIgnoresPrefix = FALSE
 WithReader = TRUE
INVARIANTS CacheImpliesStored SuccessImpliesAllReachableStored NoWriteInFlightAtReturn ErrorsSurface FailureLeavesTreeUsable NoSkipAcrossStores GateRespected PublishedObjectsAreFrozen NoInPlaceEditOfPublished
CHECK_DEADLOCK FALSE
