SPECIFICATION Spec
CONSTANTS
 N = 4
 GateSize = 2
 MaxFailures = 2
 MaxAttempts = 3
 Variant = "copy"
 CleanSet = {2}
 UseCache = TRUE
 ForeignCached = {}
 CacheKeyIgnoresPrefix = FALSE
 WithReader = TRUE
INVARIANTS SuccessImpliesAllReachableStored NoWriteInFlightAtReturn ErrorsSurface FailureLeavesTreeUsable NoSkipAcrossStores GateRespected PublishedObjectsAreFrozen NoInPlaceEditOfPublished
CHECK_DEADLOCK FALSE
