SPECIFICATION TSpec
INVARIANT Report
CHECK_DEADLOCK FALSE
