------------------------------ MODULE TraceLoad ------------------------------
(* C19: LoadMast must fail with an ERROR (not a panic, not a tree) whenever
   MustReject holds of the root record, the loader's configuration and the
   stored top node.  Nothing is demanded when it does not hold.  Layers under
   the recorded branch factor come from Format.tla's IntLayer.              *)
EXTENDS Format, Json
Trace == ndJsonDeserialize("trace.ndjson")
VARIABLES l, viol, stat
tvars == <<l, viol, stat>>
Stat0 == [events |-> 0, mustreject |-> 0, rejected |-> 0, accepted |-> 0, fmt |-> 0, missing |-> 0, undecodable |-> 0, counts |-> 0, order |-> 0, layers |-> 0]
TInit == l = 1 /\ viol = {} /\ stat = Stat0
Ev == Trace[l]
V(why) == [p |-> "C19", l |-> l, tr |-> l, why |-> why, h |-> 0]

Less(a, b, rev) == IF rev THEN a > b ELSE a < b
Ascending(ks, rev) == \A i \in 1..Len(ks)-1 : Less(ks[i], ks[i+1], rev)
CountsBad(e) == e.nk # e.nv \/ (e.nl # 0 /\ e.nl # e.nk + 1)
LayerBad(e) == \E i \in DOMAIN e.keys : IntLayer(e.keys[i], e.bf) < e.height
Reasons(e) ==
  (IF ~e.fmtknown THEN {"fmt"} ELSE {})
  \cup (IF e.fmtknown /\ e.haslink /\ ~e.present THEN {"missing"} ELSE {})
  \cup (IF e.fmtknown /\ e.haslink /\ e.present /\ ~e.decodable THEN {"undecodable"} ELSE {})
  \cup (IF e.fmtknown /\ e.haslink /\ e.present /\ e.decodable /\ CountsBad(e) THEN {"counts"} ELSE {})
  \cup (IF e.fmtknown /\ e.haslink /\ e.present /\ e.decodable /\ ~CountsBad(e) /\ ~Ascending(e.keys, e.rev) THEN {"order"} ELSE {})
  \cup (IF e.fmtknown /\ e.haslink /\ e.present /\ e.decodable /\ ~CountsBad(e) /\ LayerBad(e) THEN {"layers"} ELSE {})
Why(r) == CASE "fmt" \in r -> "a root naming an unknown node format"
            [] "missing" \in r -> "a root whose top node is missing"
            [] "undecodable" \in r -> "a root whose top node is undecodable"
            [] "counts" \in r -> "a root whose top node has mismatched entry and link counts"
            [] "order" \in r -> "a root whose keys are not strictly ascending under the configured order"
            [] OTHER -> "a root one of whose keys has a layer below the recorded height"
RECURSIVE BumpAll(_, _)
BumpAll(s, fs) == IF fs = {} THEN s ELSE LET f == CHOOSE x \in fs : TRUE IN BumpAll([s EXCEPT ![f] = @ + 1], fs \ {f})
TStep == /\ l <= Len(Trace)
         /\ LET e == Ev
                r == Reasons(e)
                v == IF r = {} THEN {}
                     ELSE IF e.res = "panic" THEN {V("LoadMast panics instead of returning an error on " \o Why(r))}
                     ELSE IF e.res = "ok" THEN {V("LoadMast accepts " \o Why(r))} ELSE {}
                s1 == BumpAll([stat EXCEPT !.events = @ + 1], r)
                s2 == IF r # {} THEN [s1 EXCEPT !.mustreject = @ + 1] ELSE s1
                s3 == IF e.res = "err" THEN [s2 EXCEPT !.rejected = @ + 1] ELSE IF e.res = "ok" THEN [s2 EXCEPT !.accepted = @ + 1] ELSE s2
            IN viol' = viol \cup v /\ stat' = s3
         /\ l' = l + 1
TSpec == TInit /\ [][TStep]_tvars
Report == (l = Len(Trace) + 1) => PrintT(<<"REPORT", ToJson([viol |-> viol, stat |-> stat, consumed |-> l - 1])>>)
=============================================================================
