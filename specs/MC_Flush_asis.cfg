SPECIFICATION Spec
CONSTANTS
 N = 3
 GateSize = 2
 MaxFailures = 2
 MaxAttempts = 3
 Variant = "asis"
 CleanSet = {}
 UseCache = TRUE
 ForeignCached = {}
 PublishEarly = FALSE
 CacheKeyIgnoresPrefix = FALSE
 WithReader = TRUE
INVARIANTS SuccessImpliesAllReachableStored FailureLeavesTreeUsable
CHECK_DEADLOCK FALSE
