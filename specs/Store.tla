------------------------------- MODULE Store -------------------------------
(* The node-store contract that every Persist backend must honour (C18), with
   the three backends of jrhy/mast as refinements of one abstract store:
     mem   in_memory_store.go  a mutex-protected map (Store/Load atomic)
     file  persist/file        one file per name under a base path
                               (syscall-level protocol: FileStore.tla)
     s3    persist/s3          PutObject / GetObject on  Bucket, Prefix \o name
   Names are content addresses, so all writers of a name carry the same bytes
   (Bytes[n]).  Clients run Store and Load as begin/end pairs so that
   concurrent same-name writers and readers interleave; the backend may fail
   a call (injected error), which must surface to the caller.
   For s3 the object space is (bucket, key); KeyOf is the mapping under test:
   ExactObjectKey demands that nothing but Bucket / Prefix \o name is touched. *)
EXTENDS Integers, Sequences, FiniteSets, TLC

CONSTANTS Names, Clients, MaxErrors,
          Backend,       \* "mem" | "s3"
          KeyMapping     \* "exact" | "noprefix" | "otherbucket"   (s3 only; the last two are mutants for non-vacuity)

None == <<"none">>
Bytes(n) == <<"bytes-of", n>>
Bucket == "bkt"
Prefix == "pfx/"
Intended(n) == <<Bucket, <<Prefix, n>>>>
KeyOf(n) == IF Backend # "s3" \/ KeyMapping = "exact" THEN Intended(n)
            ELSE IF KeyMapping = "noprefix" THEN <<Bucket, <<"", n>>>> ELSE <<"other", <<Prefix, n>>>>

VARIABLES obj,        \* object space: key -> bytes | None
          pc,         \* per client: idle | [op, n, phase]
          ret,        \* per client: last result
          stored,     \* names for which some Store has returned success
          errs, touched
vars == <<obj, pc, ret, stored, errs, touched>>

Keys == {KeyOf(n) : n \in Names} \cup {Intended(n) : n \in Names}
Idle == [op |-> "idle", n |-> "-"]

Init == /\ obj = [k \in Keys |-> None] /\ pc = [c \in Clients |-> Idle] /\ ret = [c \in Clients |-> <<"none">>]
        /\ stored = {} /\ errs = 0 /\ touched = {}

BeginStore(c, n) == /\ pc[c] = Idle /\ pc' = [pc EXCEPT ![c] = [op |-> "store", n |-> n]] /\ UNCHANGED <<obj, ret, stored, errs, touched>>
EndStoreOk(c) == /\ pc[c].op = "store"
                 /\ obj' = [obj EXCEPT ![KeyOf(pc[c].n)] = Bytes(pc[c].n)]
                 /\ touched' = touched \cup {KeyOf(pc[c].n)}
                 /\ stored' = stored \cup {pc[c].n}
                 /\ ret' = [ret EXCEPT ![c] = <<"ok">>] /\ pc' = [pc EXCEPT ![c] = Idle] /\ UNCHANGED errs
EndStoreErr(c) == /\ pc[c].op = "store" /\ errs < MaxErrors
                  /\ errs' = errs + 1 /\ ret' = [ret EXCEPT ![c] = <<"err">>] /\ pc' = [pc EXCEPT ![c] = Idle]
                  /\ UNCHANGED <<obj, stored, touched>>
BeginLoad(c, n) == /\ pc[c] = Idle /\ pc' = [pc EXCEPT ![c] = [op |-> "load", n |-> n]] /\ UNCHANGED <<obj, ret, stored, errs, touched>>
EndLoad(c) == /\ pc[c].op = "load"
              /\ touched' = touched \cup {KeyOf(pc[c].n)}
              /\ ret' = [ret EXCEPT ![c] = IF obj[KeyOf(pc[c].n)] = None THEN <<"err", pc[c].n>> ELSE <<"ok", pc[c].n, obj[KeyOf(pc[c].n)]>>]
              /\ pc' = [pc EXCEPT ![c] = Idle] /\ UNCHANGED <<obj, stored, errs>>
EndLoadErr(c) == /\ pc[c].op = "load" /\ errs < MaxErrors
                 /\ errs' = errs + 1 /\ ret' = [ret EXCEPT ![c] = <<"err", pc[c].n>>] /\ pc' = [pc EXCEPT ![c] = Idle]
                 /\ UNCHANGED <<obj, stored, touched>>
Next == \E c \in Clients: (\E n \in Names: BeginStore(c, n) \/ BeginLoad(c, n)) \/ EndStoreOk(c) \/ EndStoreErr(c) \/ EndLoad(c) \/ EndLoadErr(c)
Spec == Init /\ [][Next]_vars

\* C18
LoadReturnsExactBytes == \A c \in Clients: ret[c][1] = "ok" /\ Len(ret[c]) = 3 => ret[c][3] = Bytes(ret[c][2])
MissIsError == \A c \in Clients: (Len(ret[c]) = 3 /\ ret[c][1] = "ok") => ret[c][2] \in stored      \* data only for names some Store succeeded on
ReadYourWrite == \A n \in stored: obj[Intended(n)] = Bytes(n)                                          \* once stored, loadable with exactly those bytes, forever (rewrites included)
ExactObjectKey == touched \subseteq {Intended(n) : n \in Names}
=============================================================================
