--------------------------- MODULE MastCursorOps ---------------------------
(* Cursor navigation and SeekIter of jrhy/mast as pure operators.
     pub.go  Cursor (715-738), Min (741-762), Max (765-790), Get (794-804),
             Forward (807-837), Backward (840-870), search1/Ceil (874-944),
             SeekIter (522-557);  lib.go seekIter (535-563)
   A cursor is a path of [n |-> node, i |-> 0-based link index] from the top
   node down (Go's 0-based slices: Key[i] is n.k[i+1], Link[i] is n.c[i+1]).
   Results are [p |-> path, bad |-> "" | "panic" | "err"].
   `asis` = TRUE selects the behaviour of the pinned release where it differs
   (Backward tests Link[0]; Ceil on an empty path and Max on the placeholder
   node of a never-populated tree index out of range); it is used only by the
   non-vacuity configuration.                                              *)
EXTENDS MastCore

NKeys(nd) == Len(nd.k)
NLinks(nd) == Len(nd.c)
LinkAt(nd, i) == nd.c[i+1]
KeyAt(nd, i) == nd.k[i+1]
ValAt(nd, i) == nd.v[i+1]
SetLastI(p, i) == [p EXCEPT ![Len(p)].i = i]
OK(p) == [p |-> p, bad |-> ""]
Bad(p, why) == [p |-> p, bad |-> why]

Placeholder == [k |-> <<>>, v |-> <<>>, c |-> << <<>> >>]
\* Cursor(): a tree whose top link is nil has an empty path; a never-populated / loaded-empty tree has the placeholder node
Open(root, placeholder) == IF root # <<>> THEN <<[n |-> root[1], i |-> 0]>>
                           ELSE IF placeholder THEN <<[n |-> Placeholder, i |-> 0]>> ELSE <<>>

RECURSIVE MinFrom(_, _)
MinFrom(p, nd) == IF NLinks(nd) = 0 \/ LinkAt(nd, 0) = <<>> THEN OK(p)
                  ELSE LET ch == LinkAt(nd, 0)[1] IN MinFrom(Append(p, [n |-> ch, i |-> 0]), ch)
Min_(p) == IF p = <<>> THEN OK(p) ELSE MinFrom(p, Last(p).n)

RECURSIVE MaxFrom(_, _, _)
MaxFrom(p, nd, asis) ==
  IF NLinks(nd) = 0 \/ LinkAt(nd, NLinks(nd)-1) = <<>>
  THEN OK(Append(p, [n |-> nd, i |-> IF ~asis /\ NKeys(nd) = 0 THEN 0 ELSE NKeys(nd) - 1]))
  ELSE MaxFrom(Append(p, [n |-> nd, i |-> NLinks(nd) - 1]), LinkAt(nd, NLinks(nd)-1)[1], asis)
Max_(p, asis) == IF p = <<>> THEN OK(p) ELSE MaxFrom(Front(p), Last(p).n, asis)

\* <<"none">> | <<"entry", k, v>> | <<"panic">>
Get_(p) == IF p = <<>> THEN <<"none">>
           ELSE LET pe == Last(p) IN
                IF pe.i >= NKeys(pe.n) THEN <<"none">> ELSE IF pe.i < 0 THEN <<"panic">>
                ELSE <<"entry", KeyAt(pe.n, pe.i), ValAt(pe.n, pe.i)>>

RECURSIVE PopFwd(_)
PopFwd(p) == LET q == Front(p) IN IF q = <<>> THEN OK(q) ELSE IF Last(q).i < NKeys(Last(q).n) THEN OK(q) ELSE PopFwd(q)
Forward_(p) ==
  IF p = <<>> THEN OK(p)
  ELSE LET pe == Last(p) IN
       IF pe.i + 1 < NLinks(pe.n) /\ LinkAt(pe.n, pe.i + 1) # <<>>
       THEN LET ch == LinkAt(pe.n, pe.i+1)[1] IN Min_(Append(SetLastI(p, pe.i + 1), [n |-> ch, i |-> 0]))
       ELSE IF pe.i + 1 < NKeys(pe.n) THEN OK(SetLastI(p, pe.i + 1)) ELSE PopFwd(p)

RECURSIVE PopBwd(_)
PopBwd(p) == LET q == Front(p) IN IF q = <<>> THEN OK(q) ELSE IF Last(q).i > 0 THEN OK(SetLastI(q, Last(q).i - 1)) ELSE PopBwd(q)
Backward_(p, asis) ==
  IF p = <<>> THEN OK(p)
  ELSE LET pe == Last(p)
           descend == IF asis THEN LinkAt(pe.n, 0) # <<>>
                      ELSE (pe.i >= 0 /\ pe.i < NLinks(pe.n) /\ LinkAt(pe.n, pe.i) # <<>>)
       IN IF descend
          THEN IF pe.i < 0 \/ pe.i >= NLinks(pe.n) THEN Bad(p, "panic")
               ELSE IF LinkAt(pe.n, pe.i) = <<>> THEN Bad(p, "err")    \* load(nil): unknown link type
               ELSE Max_(Append(p, [n |-> LinkAt(pe.n, pe.i)[1], i |-> 0]), asis)
          ELSE IF pe.i > 0 THEN OK(SetLastI(p, pe.i - 1)) ELSE PopBwd(p)

LowerBound(nd, key) == LET S == {j \in 0..NKeys(nd)-1 : key <= KeyAt(nd, j)} IN IF S = {} THEN NKeys(nd) ELSE Min(S)
RECURSIVE CeilUp(_)
CeilUp(p) == IF Last(p).i = NKeys(Last(p).n) THEN (LET q == Front(p) IN IF q = <<>> THEN OK(q) ELSE CeilUp(q)) ELSE OK(p)
RECURSIVE Ceil_(_, _, _)
Ceil_(p, key, asis) ==
  IF p = <<>> THEN (IF asis THEN Bad(p, "panic") ELSE OK(p))
  ELSE LET pe == Last(p)
           i == LowerBound(pe.n, key)
           q == SetLastI(p, i)
       IN IF i < NKeys(pe.n) /\ KeyAt(pe.n, i) = key THEN OK(q)
          ELSE IF LinkAt(pe.n, i) = <<>> THEN CeilUp(q)
          ELSE Ceil_(Append(q, [n |-> LinkAt(pe.n, i)[1], i |-> 0]), key, asis)

(* ---------------- navigation under a failing Load (C12: a failed call can be made again) ----------------
   f = the number of loads that still succeed before one fails (0: the next load fails).  Every node below the cursor's
   path is taken to be persisted (each step down is a Load), the worst case.  `restore` = TRUE is the repaired behaviour
   (fix 6587a03: Forward / Backward put the path back when their descent fails); FALSE is the behaviour before it, where the
   error is returned with the cursor left inside the neighbouring subtree.                                           *)
RECURSIVE MinFromF(_, _, _)
MinFromF(p, nd, f) == IF NLinks(nd) = 0 \/ LinkAt(nd, 0) = <<>> THEN OK(p)
                      ELSE IF f = 0 THEN Bad(p, "err")
                      ELSE LET ch == LinkAt(nd, 0)[1] IN MinFromF(Append(p, [n |-> ch, i |-> 0]), ch, f - 1)
RECURSIVE MaxFromF(_, _, _)
MaxFromF(p, nd, f) ==
  IF NLinks(nd) = 0 \/ LinkAt(nd, NLinks(nd)-1) = <<>>
  THEN OK(Append(p, [n |-> nd, i |-> IF NKeys(nd) = 0 THEN 0 ELSE NKeys(nd) - 1]))
  ELSE IF f = 0 THEN Bad(Append(p, [n |-> nd, i |-> NLinks(nd) - 1]), "err")
  ELSE MaxFromF(Append(p, [n |-> nd, i |-> NLinks(nd) - 1]), LinkAt(nd, NLinks(nd)-1)[1], f - 1)

ForwardF(p, f, restore) ==
  IF p = <<>> THEN OK(p)
  ELSE LET pe == Last(p) IN
       IF pe.i + 1 < NLinks(pe.n) /\ LinkAt(pe.n, pe.i + 1) # <<>>
       THEN IF f = 0 THEN Bad(p, "err")         \* the load of the child itself: nothing has moved yet
            ELSE LET ch == LinkAt(pe.n, pe.i+1)[1]
                     r == MinFromF(Append(SetLastI(p, pe.i + 1), [n |-> ch, i |-> 0]), ch, f - 1)
                 IN IF r.bad = "err" /\ restore THEN Bad(p, "err") ELSE r
       ELSE Forward_(p)                          \* no load involved
BackwardF(p, f, restore) ==
  IF p = <<>> THEN OK(p)
  ELSE LET pe == Last(p) IN
       IF pe.i >= 0 /\ pe.i < NLinks(pe.n) /\ LinkAt(pe.n, pe.i) # <<>>
       THEN IF f = 0 THEN Bad(p, "err")
            ELSE LET r == MaxFromF(p, LinkAt(pe.n, pe.i)[1], f - 1)
                 IN IF r.bad = "err" /\ restore THEN Bad(p, "err") ELSE r
       ELSE Backward_(p, FALSE)

(* ---------------- SeekIter ---------------- *)
\* everything a node yields from its idx-th key on (lib.go seekIter): Key[idx], then Link[j], Key[j] for j > idx
NodeSeek(nd, idx) ==
  IF idx >= NKeys(nd) THEN <<>>
  ELSE LET RECURSIVE go(_)
           go(j) == IF j >= NLinks(nd) THEN <<>>
                    ELSE Entries(LinkAt(nd, j)) \o (IF j < NKeys(nd) THEN << <<KeyAt(nd, j), ValAt(nd, j)>> >> ELSE <<>>) \o go(j+1)
       IN << <<KeyAt(nd, idx), ValAt(nd, idx)>> >> \o go(idx + 1)

\* the descent of the intended SeekIter: at each level the index of the first key not smaller than the probe
RECURSIVE SeekPath(_, _)
SeekPath(nd, key) ==
  LET i == LowerBound(nd, key)
  IN IF (i < NKeys(nd) /\ KeyAt(nd, i) = key) \/ LinkAt(nd, i) = <<>> THEN <<[n |-> nd, i |-> i]>>
     ELSE <<[n |-> nd, i |-> i]>> \o SeekPath(LinkAt(nd, i)[1], key)
RECURSIVE YieldUp(_, _)
YieldUp(path, j) == IF j = 0 THEN <<>> ELSE NodeSeek(path[j].n, path[j].i) \o YieldUp(path, j-1)
SeekIter_(root, key) == IF root = <<>> THEN <<>> ELSE LET p == SeekPath(root[1], key) IN YieldUp(p, Len(p))

\* the pinned release: findNode to the probe's own layer; nothing at all unless it lands on an index inside that node
RECURSIVE FindPath(_, _, _, _)
FindPath(nd, lvl, tgt, key) ==
  LET i == LowerBound(nd, key)
      hit == i < NKeys(nd) /\ KeyAt(nd, i) = key
      \* follow(createOk = FALSE) returns the node itself below a nil link: the same entry is appended once per remaining level
      next == IF LinkAt(nd, i) = <<>> THEN nd ELSE LinkAt(nd, i)[1]
  IN IF hit \/ lvl = tgt THEN [path |-> <<[n |-> nd, i |-> i]>>, lvl |-> lvl]
     ELSE LET r == FindPath(next, lvl - 1, tgt, key) IN [path |-> <<[n |-> nd, i |-> i]>> \o r.path, lvl |-> r.lvl]
SeekIterAsIs(root, height, keyLayer, key) ==
  IF root = <<>> THEN <<>>
  ELSE LET tgt == Min({keyLayer, height})
           r == FindPath(root[1], height, tgt, key)
           last == r.path[Len(r.path)]
       IN IF last.i >= NKeys(last.n) \/ r.lvl # tgt THEN <<>> ELSE YieldUp(r.path, Len(r.path))

(* ---------------- the oracle: the sorted sequence ---------------- *)
\* S: ascending sequence of <<k, v>>; positions 1..Len(S); 0 = no entry (absorbing: once off an end, always off)
CeilPos(S, p) == LET G == {j \in 1..Len(S) : S[j][1] >= p} IN IF G = {} THEN 0 ELSE Min(G)
Norm(S, x) == IF x >= 1 /\ x <= Len(S) THEN x ELSE 0
MovePos(S, pos, mv) == IF pos = 0 THEN 0 ELSE Norm(S, IF mv = "F" THEN pos + 1 ELSE pos - 1)
At(S, pos) == IF pos = 0 THEN <<"none">> ELSE <<"entry", S[pos][1], S[pos][2]>>
From(S, p) == SelectSeq(S, LAMBDA e: e[1] >= p)

\* a recorded walk w = [start, p, moves]: the Get results a sorted list would give, as <<k, v>> (<<0, 0>> = no entry)
Take(sq, n) == SubSeq(sq, 1, IF n > Len(sq) THEN Len(sq) ELSE n)
G(x) == IF x[1] = "none" THEN <<0, 0>> ELSE IF x[1] = "panic" THEN <<-1, -1>> ELSE <<x[2], x[3]>>
\* a walk is judged up to and including its first "no entry"
FirstOff(gs) == LET Z == {j \in DOMAIN gs : gs[j] = <<0, 0>>} IN IF Z = {} THEN Len(gs) ELSE Min(Z)
UpToOff(gs) == SubSeq(gs, 1, FirstOff(gs))
StartPos(S, w) == IF w.start = "min" THEN Norm(S, 1) ELSE IF w.start = "max" THEN Norm(S, Len(S)) ELSE CeilPos(S, w.p)
RECURSIVE PosSeq(_, _, _, _)
PosSeq(S, pos, moves, j) == IF j > Len(moves) THEN <<>> ELSE LET np == MovePos(S, pos, moves[j]) IN <<np>> \o PosSeq(S, np, moves, j + 1)
Expected(S, w) == LET p0 == StartPos(S, w) IN [j \in 1..Len(w.moves)+1 |-> G(At(S, (<<p0>> \o PosSeq(S, p0, w.moves, 1))[j]))]

=============================================================================
