SPECIFICATION Spec
CONSTANTS
 NK = 5
 MaxLayer = 2
 MaxH = 2
 Restore = TRUE
 AsIs = FALSE
INVARIANTS NoFailure Agrees SeekOK RetrySafe
CHECK_DEADLOCK FALSE
