SPECIFICATION Spec
CONSTANTS
 NK = 5
 BF = 2
 MaxLayer = 2
INVARIANTS StepOK Emit
CHECK_DEADLOCK FALSE
