SPECIFICATION Spec
CONSTANTS
 Names = {"a", "b"}
 Clients = {1, 2, 3}
 MaxErrors = 2
 Backend = "s3"
 KeyMapping = "exact"
INVARIANTS LoadReturnsExactBytes MissIsError ReadYourWrite ExactObjectKey
CHECK_DEADLOCK FALSE
