----------------------------- MODULE TraceFlush -----------------------------
(* Validation of MakeRoot executions recorded under a controlled Persist
   (harness family "flush").  Events, in the order of their sequence numbers:
     fbegin        a new execution (scenario, schedule)
     mk n          the main goroutine marshaled node n (its name is the digest of the bytes)
     ss n          Persist.Store(n, bytes) was entered        (hashok: n is the name of exactly those bytes)
     se n ok       that Store call returned (ok / injected error)
     ret res ...   MakeRoot returned; with what the harness then observed: writes still running, nodes reachable from
                   the returned root that are missing from the store, whether a fresh loader sees the model, whether the
                   tree itself still answers Iter / Insert / Delete and equals the model
     retry         MakeRoot is called again on the same tree
   The abstract state is that of Flush.tla seen from outside: which writes are in flight, which names are stored, whether
   a write of this attempt failed.  C03's clauses are evaluated at every event; a violation is recorded, never refused.  *)
EXTENDS Integers, Sequences, FiniteSets, TLC, Json

Trace == ndJsonDeserialize("trace.ndjson")
GateSize == 40

VARIABLES l, id, inflight, stored, failedNow, everFailed, attempt, viol, stat
tvars == <<l, id, inflight, stored, failedNow, everFailed, attempt, viol, stat>>
Stat0 == [events |-> 0, runs |-> 0, stores |-> 0, failures |-> 0, oks |-> 0, errs |-> 0, retries |-> 0, retryok |-> 0,
          maxinflight |-> 0, foreign |-> 0, skipped_after_error |-> 0, marshals |-> 0]
TInit == /\ l = 1 /\ id = 0 /\ inflight = {} /\ stored = {} /\ failedNow = FALSE /\ everFailed = FALSE /\ attempt = 1
         /\ viol = {} /\ stat = Stat0
Ev == Trace[l]
V(why) == [p |-> "C03", l |-> l, tr |-> Ev.id, why |-> why, h |-> 0]
Bump(s, f) == [s EXCEPT ![f] = @ + 1]
Is(op) == l <= Len(Trace) /\ Ev.op = op
Step(v, s) == /\ viol' = viol \cup v /\ stat' = Bump(s, "events") /\ l' = l + 1

TBegin == /\ Is("fbegin")
          /\ id' = Ev.id /\ inflight' = {} /\ stored' = {} /\ failedNow' = FALSE /\ everFailed' = FALSE /\ attempt' = 1
          /\ Step({}, Bump(stat, "runs"))
TMk == /\ Is("mk") /\ Step({}, Bump(stat, "marshals")) /\ UNCHANGED <<id, inflight, stored, failedNow, everFailed, attempt>>
TSs == /\ Is("ss")
       /\ inflight' = inflight \cup {Ev.n}
       \* (the number of writes in flight is recorded, not judged: C03 does not state the size of the write gate)
       /\ Step((IF ~Ev.hashok THEN {V("a node is written under a name that is not the digest of its bytes")} ELSE {}),
               [Bump(stat, "stores") EXCEPT !.maxinflight = IF Cardinality(inflight) + 1 > @ THEN Cardinality(inflight) + 1 ELSE @])
       /\ UNCHANGED <<id, stored, failedNow, everFailed, attempt>>
TSe == /\ Is("se")
       /\ inflight' = inflight \ {Ev.n}
       /\ stored' = IF Ev.ok THEN stored \cup {Ev.n} ELSE stored
       /\ failedNow' = (failedNow \/ ~Ev.ok) /\ everFailed' = (everFailed \/ ~Ev.ok)
       /\ Step({}, IF Ev.ok THEN stat ELSE Bump(stat, "failures"))
       /\ UNCHANGED <<id, attempt>>
TRet == /\ Is("ret")
        /\ LET v == (IF Ev.res = "panic" THEN {V("MakeRoot panics")} ELSE {})
                    \cup (IF Ev.res = "hang" THEN {V("MakeRoot does not return although every write has completed")} ELSE {})
                    \cup (IF Ev.inflight > 0 \/ inflight # {} THEN {V("MakeRoot returned while a write was still in flight")} ELSE {})
                    \cup (IF failedNow /\ Ev.res = "ok" THEN {V("a write failed, yet MakeRoot reports success")} ELSE {})
                    \cup (IF ~failedNow /\ Ev.res = "err" /\ ~Ev.foreign THEN {V("MakeRoot fails on a healthy store")} ELSE {})
                    \cup (IF Ev.res = "ok" /\ Ev.missing > 0
                          THEN {V(IF Ev.foreign /\ Ev.nocache THEN "nodes were skipped because another store (same bucket, other prefix) holds them"
                                  ELSE IF Ev.foreign THEN "nodes were skipped because a cache shared with another store had seen them"
                                  ELSE IF everFailed THEN "after a failed write a later attempt succeeded although a reachable node is not in the store"
                                  ELSE "success reported although a reachable node is not in the store")} ELSE {})
                    \cup (IF Ev.res = "ok" /\ Ev.missing = 0 /\ Ev.reload # "ok" THEN {V("the returned root does not load back to the tree's contents")} ELSE {})
                    \cup (IF Ev.res \in {"ok", "err"} /\ Ev.usable # "ok" /\ ~Ev.foreign
                          THEN {V(IF Ev.res = "err" THEN "after a failed MakeRoot the tree is no longer usable or changed"
                                  ELSE "after MakeRoot the tree is no longer usable or changed")} ELSE {})
               s1 == IF Ev.res = "ok" THEN Bump(stat, "oks") ELSE Bump(stat, "errs")
               s2 == IF Ev.foreign THEN Bump(s1, "foreign") ELSE s1
               s3 == IF attempt > 1 /\ Ev.res = "ok" THEN Bump(s2, "retryok") ELSE s2
           IN Step(v, s3)
        /\ UNCHANGED <<id, inflight, stored, failedNow, everFailed, attempt>>
TRetry == /\ Is("retry")
          /\ failedNow' = FALSE /\ attempt' = attempt + 1 /\ inflight' = {}
          /\ Step({}, Bump(stat, "retries"))
          /\ UNCHANGED <<id, stored, everFailed>>
\* the tree is modified between a failed attempt and the retry (the observations of the next ret are against the new contents)
TMod == /\ Is("mod") /\ Step({}, stat) /\ UNCHANGED <<id, inflight, stored, failedNow, everFailed, attempt>>
TNext == TBegin \/ TMk \/ TSs \/ TSe \/ TRet \/ TRetry \/ TMod
TSpec == TInit /\ [][TNext]_tvars
Report == (l = Len(Trace) + 1) => PrintT(<<"REPORT", ToJson([viol |-> viol, stat |-> stat, consumed |-> l - 1])>>)
=============================================================================
