SPECIFICATION Spec
CONSTANTS
 Writers = {1, 2, 3}
 L = 3
 MaxCrashes = 2
 Protocol = "direct"
INVARIANTS LoadIsCompleteOrMissing SuccessMeansComplete RestoreRepairs
CHECK_DEADLOCK FALSE
