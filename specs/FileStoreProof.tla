--------------------------- MODULE FileStoreProof ---------------------------
(* TLAPS proof that the temp-file-and-rename protocol of FileStore.tla satisfies the C17 invariants for EVERY set of
   writers, node length and number of crashes and I/O errors (TLC checks MC_File.cfg for 3 writers, 3 bytes, 2 faults).
   Checked with   tlapm --threads 16 FileStoreProof.tla   *)
EXTENDS FileStore, TLAPS

ASSUME ProtoRename == Protocol = "rename"
ASSUME LNat == L \in Nat

PCs == {"idle", "stat", "open", "write", "rename", "done", "dead"}
Rets == {"none", "ok", "err"}
TypeOK == /\ final \in Int /\ tmp \in [Writers -> Int] /\ pc \in [Writers -> PCs] /\ ret \in [Writers -> Rets] /\ crashes \in Int

IndInv == /\ TypeOK
          /\ final = -1 \/ final = L
          /\ \A w \in Writers: pc[w] = "rename" => tmp[w] = L
          /\ \A w \in Writers: ret[w] = "ok" => final = L

LEMMA InitInv == Init => IndInv
  BY LNat DEF Init, IndInv, TypeOK, PCs, Rets

LEMMA StepInv == IndInv /\ [Next]_vars => IndInv'
<1> SUFFICES ASSUME IndInv, [Next]_vars PROVE IndInv'
  OBVIOUS
<1> USE ProtoRename, LNat DEF IndInv, TypeOK, PCs, Rets, Cur
<1>1. CASE UNCHANGED vars
  BY <1>1 DEF vars
<1>2. ASSUME NEW w \in Writers, Start(w) PROVE IndInv'
  BY <1>2 DEF Start
<1>3. ASSUME NEW w \in Writers, Stat(w) PROVE IndInv'
  BY <1>3 DEF Stat
<1>4. ASSUME NEW w \in Writers, Open(w) PROVE IndInv'
  BY <1>4 DEF Open
<1>5. ASSUME NEW w \in Writers, WriteByte(w) PROVE IndInv'
  BY <1>5 DEF WriteByte
<1>6. ASSUME NEW w \in Writers, WriteDone(w) PROVE IndInv'
  BY <1>6 DEF WriteDone
<1>7. ASSUME NEW w \in Writers, Rename(w) PROVE IndInv'
  BY <1>7 DEF Rename
<1>8. ASSUME NEW w \in Writers, IoError(w) PROVE IndInv'
  BY <1>8 DEF IoError
<1>9. ASSUME NEW w \in Writers, Crash(w) PROVE IndInv'
  BY <1>9 DEF Crash
<1> QED
  BY <1>1, <1>2, <1>3, <1>4, <1>5, <1>6, <1>7, <1>8, <1>9 DEF Next

LEMMA InvProps == IndInv => LoadIsCompleteOrMissing /\ SuccessMeansComplete /\ RestoreRepairs
  BY DEF IndInv, LoadIsCompleteOrMissing, SuccessMeansComplete, RestoreRepairs

THEOREM Safety == Spec => [](LoadIsCompleteOrMissing /\ SuccessMeansComplete /\ RestoreRepairs)
<1>1. Spec => []IndInv
  BY InitInv, StepInv, PTL DEF Spec
<1> QED
  BY <1>1, InvProps, PTL
=============================================================================
