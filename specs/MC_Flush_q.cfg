SPECIFICATION Spec
CONSTANTS
 N = 3
 GateSize = 2
 MaxFailures = 2
 MaxAttempts = 3
 Variant = "copy"
 CleanSet = {}
 UseCache = TRUE
 ForeignCached = {1}
 PublishEarly = FALSE
 CacheKeyIgnoresPrefix = FALSE
 WithReader = TRUE
INVARIANTS CacheImpliesStored SuccessImpliesAllReachableStored NoWriteInFlightAtReturn ErrorsSurface FailureLeavesTreeUsable NoSkipAcrossStores GateRespected PublishedObjectsAreFrozen NoInPlaceEditOfPublished
CHECK_DEADLOCK FALSE
PROPERTIES Termination
