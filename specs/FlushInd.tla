------------------------------ MODULE FlushInd ------------------------------
(* An inductive invariant for the flush protocol of Flush.tla in its intended variants ("copy" and "commit", cache key
   with the store prefix, publication after the write).  Checked with Apalache:
     Init => IndInv                       (--init=Init    --inv=IndInv --length=0)
     IndInv /\ Next => IndInv'            (--init=IndInit --inv=IndInv --length=1)
     IndInv => the C03 / C11 invariants   (--init=IndInit --inv=Props  --length=0)
   for a fixed number of nodes N (6, and 10 in the thorough tier) but EVERY gate size (FlushProof.tla: a TLAPS proof for every N), failure budget, number of attempts, clean set, foreign cache
   contents, cache on/off, reader on/off - and, being inductive, from every state that satisfies IndInv, reachable within
   TLC's bounds or not. *)
EXTENDS Flush

\* constants: a fixed number of nodes, everything else free
CInit(n, vs, k, e) ==
  /\ N = n /\ GateSize \in 1..(n + 1) /\ MaxFailures \in 0..1000 /\ MaxAttempts \in 1..1000 /\ Variant \in vs
  /\ CleanSet \in SUBSET (1..n) /\ UseCache \in BOOLEAN /\ ForeignCached \in SUBSET (1..n)
  /\ CacheKeyIgnoresPrefix = k /\ PublishEarly = e /\ WithReader \in BOOLEAN
ConstInit == CInit(6, {"copy", "commit"}, FALSE, FALSE)
ConstInitBig == CInit(10, {"copy", "commit"}, FALSE, FALSE)
\* the three deviations Flush.tla names must each break the induction (non-vacuity of IndInv)
ConstInitAsis == CInit(6, {"asis"}, FALSE, FALSE)
ConstInitNoPrefix == CInit(6, {"copy"}, TRUE, FALSE)
ConstInitEarly == CInit(6, {"copy"}, FALSE, TRUE)

Tags == {"copy", "orig"}
TypeOK ==
  /\ mpc \in {"visit", "sent", "closing", "returned"}
  /\ cur \in 1..(N + 1)
  /\ attempt \in 1..MaxAttempts
  /\ result \in {"none", "ok", "err"}
  /\ flags \in [Nodes -> BOOLEAN]
  /\ linkIsHash \in [Nodes -> BOOLEAN]
  /\ pending \in SUBSET Nodes
  /\ chan \in (Nodes \cup {None, Closed})
  /\ dpc \in {"recv", "gate", "exit"}
  /\ df \in (Nodes \cup {None, Closed})
  /\ tokens \in 0..GateSize
  /\ wg \in 0..(N + 1)
  /\ wst \in [Nodes -> {"idle", "spawned", "storing", "stored", "done"}]
  /\ firstErr \in BOOLEAN
  /\ failedNow \in BOOLEAN
  /\ store \in SUBSET Nodes
  /\ cache \in SUBSET Nodes
  /\ failsLeft \in 0..MaxFailures
  /\ published \in SUBSET (Nodes \X Tags)
  /\ writtenAfterPub \in SUBSET Nodes
  /\ rpc \in {"idle", "got"}
  /\ rseen = <<>> \/ \E p \in Nodes \X Tags: rseen = <<p>>
  /\ inPlaceEdit \in SUBSET Nodes

Active == {n \in Nodes: wst[n] \in {"spawned", "storing", "stored"}}
Disp(n) == chan = n \/ (dpc = "gate" /\ df = n) \/ wst[n] # "idle"      \* the write of n has been handed over
DispAlive == IF dpc = "exit" THEN 0 ELSE 1

\* what is in the store
InvStore ==
  /\ \A n \in Nodes: wst[n] = "stored" => n \in store
  /\ \A n \in Nodes: wst[n] = "done" => (n \in store \/ firstErr)
  /\ cache \subseteq store
  /\ \A n \in Nodes: (flags[n] \/ linkIsHash[n]) => n \in store
\* the wait group counts the dispatcher and the workers; the gate counts the workers (and the token the dispatcher keeps on exit)
InvCount ==
  /\ wg = DispAlive + Cardinality(Active)
  /\ tokens = GateSize - Cardinality(Active) - (1 - DispAlive)
\* main's progress
InvMain ==
  /\ mpc = "sent" => (cur <= N /\ ~flags[cur] /\ Disp(cur))
  /\ mpc \in {"closing", "returned"} => cur = N + 1
  /\ mpc \in {"visit", "sent", "closing"} => result = "none"
  /\ mpc = "returned" => result # "none"
  /\ result = "none" => \A n \in Nodes: n < cur => (flags[n] \/ n \in cache \/ Disp(n))
  /\ result = "ok" => Nodes \subseteq store
\* the channel and the dispatcher
InvChan ==
  /\ chan = Closed => mpc = "closing"
  /\ (dpc = "gate" /\ df = Closed) => (mpc = "closing" /\ chan = None)
  /\ dpc = "exit" => (mpc \in {"closing", "returned"} /\ chan = None)
  /\ dpc = "gate" => df # None
  /\ mpc = "returned" => (wg = 0 /\ chan = None)
\* a write is handed over once per attempt: in the channel, with the dispatcher, or with a worker
InvOnce ==
  /\ \A n \in Nodes: wst[n] # "idle" => (n < cur \/ (n = cur /\ mpc = "sent"))
  /\ chan \in Nodes => (mpc = "sent" /\ chan = cur /\ wst[cur] = "idle" /\ ~(dpc = "gate" /\ df = cur))
  /\ (dpc = "gate" /\ df \in Nodes) => (wst[df] = "idle" /\ (df < cur \/ (df = cur /\ mpc = "sent")))
\* errors
InvErr ==
  /\ failedNow => firstErr
  /\ (mpc = "returned" /\ firstErr) => result = "err"
\* publication
InvPub ==
  /\ Variant = "copy" => \A p \in published: p[2] = "copy"
  /\ Variant = "copy" => (writtenAfterPub = {} /\ inPlaceEdit = {})
  /\ rpc = "got" => (Len(rseen) = 1 /\ (Variant = "copy" => rseen[1][2] = "copy"))

IndInv == TypeOK /\ InvStore /\ InvCount /\ InvMain /\ InvChan /\ InvOnce /\ InvErr /\ InvPub

IndInit == IndInv

Props ==
  /\ CacheImpliesStored /\ SuccessImpliesAllReachableStored /\ NoWriteInFlightAtReturn /\ ErrorsSurface
  /\ FailureLeavesTreeUsable /\ NoSkipAcrossStores /\ GateRespected
  /\ (Variant = "copy" => (PublishedObjectsAreFrozen /\ NoInPlaceEditOfPublished))
=============================================================================
