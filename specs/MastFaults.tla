----------------------------- MODULE MastFaults -----------------------------
(* C12 at the design level: the phases of Insert and Delete in which a
   fallible call (Persist.Load, KeyCompare, Marshal/Unmarshal) can fail, and
   what the handle looks like afterwards.

     Insert   pre   findNode descent loads and comparisons, the load and split
                    of the child the key falls into          -- before any mutation
              post  the grow step: key layers of the top node (fallible only
                    when layers come from an encoding callback: LayerFallible)
     Delete   pre   findEntry descent, mergeNodes loads       -- before any mutation
              post  the shrink step: loads of the top node's children
     Get            descent loads and comparisons (read-only)

   Atomicity = "intended": every failed call is a stutter (C12).
   Atomicity = "current" : the repaired release: the pre phases are atomic,
   but a failure in a post phase returns the error after the mutation has
   been applied (Insert: entry inserted, size not incremented; Delete: entry
   removed, size decremented, tree not shrunk).  TLC must report both as
   violations of FailedOpIsStutter: they are the two recorded findings of
   known_findings.json, and TraceFaults.tla carries them as named deviations. *)
EXTENDS Mast
CONSTANTS Atomicity, LayerFallible
VARIABLE fres
fvars == <<vars, fres>>

FInit == Init /\ fres = "none"
Ok == Next /\ fres' = "ok"

FaultyInsert(h, key, val, phase) ==
  /\ hd[h].live /\ key \notin DOMAIN model[h]
  /\ LET tgt == Min({layer[key], hd[h].height})
         r == Ins(hd[h].root, hd[h].height, tgt, key, val)
         growChecked == hd[h].size >= Pow(BF, hd[h].height + 1)
     IN /\ \/ phase = "pre" /\ hd[h].root # <<>>                       \* at least one comparison, maybe loads
           \/ phase = "post" /\ LayerFallible /\ growChecked
        /\ IF phase = "post" /\ Atomicity = "current"
           THEN hd' = [hd EXCEPT ![h].root = r.t, ![h].mods = @ \cup {key}]   \* inserted, not counted, not grown
           ELSE UNCHANGED hd
  /\ fres' = "err" /\ UNCHANGED <<layer, model, store, roots, io>>

FaultyDelete(h, key, phase) ==
  /\ hd[h].live /\ key \in DOMAIN model[h]
  /\ LET tgt == Min({layer[key], hd[h].height})
         r == Del(hd[h].root, hd[h].height, tgt, key)
         s == ShrinkLoop(r.t, hd[h].height, hd[h].size - 1, {}, BF, FALSE)
     IN /\ \/ phase = "pre"
           \/ phase = "post" /\ s.ld # {}                               \* the shrink step has to load a persisted child
        /\ IF phase = "post" /\ Atomicity = "current"
           THEN hd' = [hd EXCEPT ![h].root = r.t, ![h].size = @ - 1, ![h].mods = @ \cup {key}]
           ELSE UNCHANGED hd
  /\ fres' = "err" /\ UNCHANGED <<layer, model, store, roots, io>>

FaultyGet(h, key) == /\ hd[h].live /\ hd[h].root # <<>> /\ fres' = "err" /\ UNCHANGED vars

FNext == Ok \/ \E h \in H, key \in Keys :
                  \/ \E val \in Vals, ph \in {"pre", "post"} : FaultyInsert(h, key, val, ph)
                  \/ \E ph \in {"pre", "post"} : FaultyDelete(h, key, ph)
                  \/ FaultyGet(h, key)
FSpec == FInit /\ [][FNext]_fvars

\* C12: an operation that returns an error leaves contents, size and height as they were (the retry is then an ordinary, enabled call)
FailedOpIsStutter == [][fres' = "err" => UNCHANGED <<hd, model>>]_fvars
=============================================================================
