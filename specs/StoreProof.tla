----------------------------- MODULE StoreProof -----------------------------
(* TLAPS proof that the node-store contract of Store.tla (C18) holds for EVERY set of names and clients and any number of
   injected errors, for the in-memory backend and for the S3 backend with the exact key mapping (TLC checks MC_Store_mem
   and MC_Store_s3 for 2 names and 3 clients).   tlapm --threads 8 StoreProof.tla   *)
EXTENDS Store, TLAPS

ASSUME Exact == Backend # "s3" \/ KeyMapping = "exact"

Ok3(r) == Len(r) = 3 /\ r[1] = "ok"
IndInv ==
  /\ \A n \in Names: obj[Intended(n)] = None \/ obj[Intended(n)] = Bytes(n)
  /\ \A n \in Names: obj[Intended(n)] # None => n \in stored
  /\ \A n \in stored: n \in Names /\ obj[Intended(n)] = Bytes(n)
  /\ \A c \in Clients: Ok3(ret[c]) => (ret[c][2] \in stored /\ ret[c][3] = Bytes(ret[c][2]))
  /\ \A c \in Clients: pc[c] = Idle \/ (pc[c].op \in {"store", "load"} /\ pc[c].n \in Names)
  /\ touched \subseteq {Intended(n) : n \in Names}
  /\ obj \in [Keys -> UNION {{None}, {Bytes(n) : n \in Names}}]
  /\ pc \in [Clients -> UNION {{Idle}, [op: {"store", "load"}, n: Names]}]
  /\ DOMAIN ret = Clients

LEMMA KeyIs == \A n \in Names: KeyOf(n) = Intended(n) /\ Intended(n) \in Keys
  BY Exact DEF KeyOf, Keys
LEMMA Inj == \A m, n \in Names: Intended(m) = Intended(n) => m = n
  BY DEF Intended
LEMMA NoneNotBytes == \A n \in Names: None # Bytes(n)
  BY DEF None, Bytes

LEMMA InitInv == Init => IndInv
  BY KeyIs DEF Init, IndInv, Ok3, Idle, Keys

LEMMA StepInv == IndInv /\ [Next]_vars => IndInv'
<1> SUFFICES ASSUME IndInv, [Next]_vars PROVE IndInv'
  OBVIOUS
<1> USE KeyIs, Inj, NoneNotBytes DEF IndInv, Ok3
<1>1. CASE UNCHANGED vars
  BY <1>1 DEF vars
<1>2. ASSUME NEW c \in Clients, NEW n \in Names, BeginStore(c, n) PROVE IndInv'
  BY <1>2 DEF BeginStore, Idle
<1>3. ASSUME NEW c \in Clients, NEW n \in Names, BeginLoad(c, n) PROVE IndInv'
  BY <1>3 DEF BeginLoad, Idle
<1>4. ASSUME NEW c \in Clients, EndStoreOk(c) PROVE IndInv'
  BY <1>4 DEF EndStoreOk, Idle
<1>5. ASSUME NEW c \in Clients, EndStoreErr(c) PROVE IndInv'
  BY <1>5 DEF EndStoreErr, Idle
<1>6. ASSUME NEW c \in Clients, EndLoad(c) PROVE IndInv'
  BY <1>6 DEF EndLoad, Idle
<1>7. ASSUME NEW c \in Clients, EndLoadErr(c) PROVE IndInv'
  BY <1>7 DEF EndLoadErr, Idle
<1> QED
  BY <1>1, <1>2, <1>3, <1>4, <1>5, <1>6, <1>7 DEF Next

LEMMA InvProps == IndInv => LoadReturnsExactBytes /\ MissIsError /\ ReadYourWrite /\ ExactObjectKey
  BY DEF IndInv, Ok3, LoadReturnsExactBytes, MissIsError, ReadYourWrite, ExactObjectKey

THEOREM Safety == Spec => [](LoadReturnsExactBytes /\ MissIsError /\ ReadYourWrite /\ ExactObjectKey)
<1>1. Spec => []IndInv
  BY InitInv, StepInv, PTL DEF Spec
<1> QED
  BY <1>1, InvProps, PTL
=============================================================================
