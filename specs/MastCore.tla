---------------------------- MODULE MastCore ----------------------------
(* Pure operators of the Merkle search tree, transcribed from jrhy/mast:
     lib.go   split (82-181), findNode/follow (194-253), grow (299-367),
              shrink (382-449), mergeNodes (601-643)
     pub.go   Delete (89-168), Insert (392-506), Get (351-389)
   plus an INDEPENDENT reference (Canon, RuleHeight, Shape) that does not use
   any of the insert/delete operators.

   Terms.  A child slot ("kid") is <<>> (nil link) or <<node>>.
   A node is [k |-> Seq(Key), v |-> Seq(Val), c |-> Seq(kid), m |-> BOOLEAN]
   with Len(c) = Len(k)+1.  m = TRUE: the node object is in memory and dirty
   (never written, or modified since); m = FALSE: the node is persisted and
   referenced by name, so opening it is a Persist.Load.  Content addressing
   makes the NAME of a persisted node its m-stripped term (Strip).
   Every operator that descends returns, next to its result, the set `ld` of
   persisted nodes it had to open.                                         *)
EXTENDS Integers, Sequences, FiniteSets, TLC, SequencesExt, FiniteSetsExt

Empty == [k |-> <<>>, v |-> <<>>, c |-> << <<>> >>, m |-> TRUE]
IsEmpty(n) == Len(n.c) = 1 /\ n.c[1] = <<>>
Kid(n) == IF IsEmpty(n) THEN <<>> ELSE <<n>>
Ld(kid) == IF kid # <<>> /\ ~kid[1].m THEN {kid[1]} ELSE {}
Mk(k, v, c) == [k |-> k, v |-> v, c |-> c, m |-> TRUE]

\* first index i with ks[i] >= key, else Len+1   (findNode's sort.Search)
Pos(ks, key) == LET S == {i \in 1..Len(ks): ks[i] >= key}
                IN IF S = {} THEN Len(ks)+1 ELSE Min(S)
InsAt(s, i, x) == SubSeq(s, 1, i-1) \o <<x>> \o SubSeq(s, i, Len(s))
DelAt(s, i) == SubSeq(s, 1, i-1) \o SubSeq(s, i+1, Len(s))

RECURSIVE Pow(_, _)
Pow(b, e) == IF e <= 0 THEN 1 ELSE b * Pow(b, e-1)

(* ---------------- split (lib.go:82-181) ---------------- *)
RECURSIVE SplitKid(_, _)
SplitKid(kid, key) ==   \* -> [l, r, ld]
  IF kid = <<>> THEN [l |-> <<>>, r |-> <<>>, ld |-> {}]
  ELSE LET n == kid[1]
           i == Pos(n.k, key)
           sub == SplitKid(n.c[i], key)
           L == Mk(SubSeq(n.k, 1, i-1), SubSeq(n.v, 1, i-1), SubSeq(n.c, 1, i-1) \o <<sub.l>>)
           R == Mk(SubSeq(n.k, i, Len(n.k)), SubSeq(n.v, i, Len(n.v)), <<sub.r>> \o SubSeq(n.c, i+1, Len(n.c)))
       IN [l |-> Kid(L), r |-> Kid(R), ld |-> Ld(kid) \cup sub.ld]

(* ---------------- Insert descent (pub.go:392-486, lib.go:194-253) ------- *)
RECURSIVE Ins(_, _, _, _, _)
Ins(kid, lvl, tgt, key, val) ==   \* -> [t, ld]
  LET n == IF kid = <<>> THEN Empty ELSE kid[1]
      i == Pos(n.k, key)
      found == i <= Len(n.k) /\ n.k[i] = key
  IN IF found \/ lvl = tgt THEN    \* findNode stops early when it meets the key (cmp = 0)
        IF found THEN [t |-> <<[n EXCEPT !.v[i] = val, !.m = TRUE]>>, ld |-> Ld(kid)]
        ELSE LET sp == SplitKid(n.c[i], key)
             IN [t |-> <<Mk(InsAt(n.k, i, key), InsAt(n.v, i, val),
                            SubSeq(n.c, 1, i-1) \o <<sp.l, sp.r>> \o SubSeq(n.c, i+1, Len(n.c)))>>,
                 ld |-> Ld(kid) \cup sp.ld]
     ELSE LET r == Ins(n.c[i], lvl-1, tgt, key, val)
          IN [t |-> Kid([n EXCEPT !.c[i] = r.t, !.m = TRUE]), ld |-> Ld(kid) \cup r.ld]

(* ---------------- lookup path (pub.go:351-389) ---------------- *)
RECURSIVE Find(_, _, _, _)
Find(kid, lvl, tgt, key) ==   \* -> [ok, v, ld]
  IF kid = <<>> THEN [ok |-> FALSE, v |-> 0, ld |-> {}]
  ELSE LET n == kid[1]
           i == Pos(n.k, key)
           found == i <= Len(n.k) /\ n.k[i] = key
       IN IF found THEN (IF lvl = tgt THEN [ok |-> TRUE, v |-> n.v[i], ld |-> Ld(kid)]
                                      ELSE [ok |-> FALSE, v |-> 0, ld |-> Ld(kid)])
          ELSE IF lvl = tgt THEN [ok |-> FALSE, v |-> 0, ld |-> Ld(kid)]
          ELSE LET r == Find(n.c[i], lvl-1, tgt, key)
               IN [ok |-> r.ok, v |-> r.v, ld |-> Ld(kid) \cup r.ld]

(* ---------------- mergeNodes / Delete (lib.go:601-643, pub.go:89-168) ---- *)
RECURSIVE Merge(_, _)
Merge(l, r) ==   \* -> [t, ld]
  IF l = <<>> THEN [t |-> r, ld |-> {}] ELSE IF r = <<>> THEN [t |-> l, ld |-> {}]
  ELSE LET a == l[1]  b == r[1]
           sub == Merge(a.c[Len(a.c)], b.c[1])
       IN [t |-> <<Mk(a.k \o b.k, a.v \o b.v,
                      SubSeq(a.c, 1, Len(a.c)-1) \o <<sub.t>> \o SubSeq(b.c, 2, Len(b.c)))>>,
           ld |-> Ld(l) \cup Ld(r) \cup sub.ld]

RECURSIVE Del(_, _, _, _)
Del(kid, lvl, tgt, key) ==   \* -> [ok, t, ld]
  IF kid = <<>> THEN [ok |-> FALSE, t |-> kid, ld |-> {}]
  ELSE LET n == kid[1]
           i == Pos(n.k, key)
           found == i <= Len(n.k) /\ n.k[i] = key
       IN IF found \/ lvl = tgt THEN
             IF ~found \/ lvl # tgt THEN [ok |-> FALSE, t |-> kid, ld |-> Ld(kid)]
             ELSE LET mg == Merge(n.c[i], n.c[i+1])
                  IN [ok |-> TRUE,
                      t |-> Kid(Mk(DelAt(n.k, i), DelAt(n.v, i),
                                   SubSeq(n.c, 1, i-1) \o <<mg.t>> \o SubSeq(n.c, i+2, Len(n.c)))),
                      ld |-> Ld(kid) \cup mg.ld]
          ELSE LET r == Del(n.c[i], lvl-1, tgt, key)
               IN IF ~r.ok THEN [ok |-> FALSE, t |-> kid, ld |-> Ld(kid) \cup r.ld]
                  ELSE [ok |-> TRUE, t |-> Kid([n EXCEPT !.c[i] = r.t, !.m = TRUE]), ld |-> Ld(kid) \cup r.ld]

(* ---------------- grow (lib.go:299-380, pub.go:487-503) ---------------- *)
GrowOnce(kid, h, layer) ==
  LET n == kid[1]
      up == SelectSeq([i \in 1..Len(n.k) |-> i], LAMBDA i: layer[n.k[i]] > h)
      mm == Len(up)
      lo(j) == IF j = 1 THEN 1 ELSE up[j-1] + 1
      hi(j) == IF j = mm+1 THEN Len(n.k) ELSE up[j] - 1
      ext(j) == Kid(Mk(SubSeq(n.k, lo(j), hi(j)), SubSeq(n.v, lo(j), hi(j)), SubSeq(n.c, lo(j), hi(j)+1)))
  IN <<Mk([j \in 1..mm |-> n.k[up[j]]], [j \in 1..mm |-> n.v[up[j]]], [j \in 1..mm+1 |-> ext(j)])>>
CanGrow(kid, h, layer) == kid # <<>> /\ \E i \in 1..Len(kid[1].k): layer[kid[1].k[i]] > h
RECURSIVE GrowLoop(_, _, _, _, _)
GrowLoop(kid, h, sz, layer, bf) ==   \* sz = size before the increment
  IF sz >= Pow(bf, h+1) /\ CanGrow(kid, h, layer)
  THEN GrowLoop(GrowOnce(kid, h, layer), h+1, sz, layer, bf) ELSE <<kid, h>>

(* ---------------- shrink (lib.go:382-449, pub.go:119-125) -------------- *)
ShrinkOnce(kid) ==   \* -> [t, ld]
  IF kid = <<>> THEN [t |-> <<>>, ld |-> {}]
  ELSE LET n == kid[1]
           RECURSIVE go(_)
           go(i) == IF i > Len(n.c) THEN [k |-> <<>>, v |-> <<>>, c |-> <<>>, ld |-> {}]
                    ELSE LET rest == go(i+1)
                             ch == IF n.c[i] = <<>> THEN [k |-> <<>>, v |-> <<>>, c |-> << <<>> >>] ELSE n.c[i][1]
                             kk == IF i <= Len(n.k) THEN <<n.k[i]>> ELSE <<>>
                             vv == IF i <= Len(n.k) THEN <<n.v[i]>> ELSE <<>>
                         IN [k |-> ch.k \o kk \o rest.k, v |-> ch.v \o vv \o rest.v,
                             c |-> ch.c \o rest.c, ld |-> Ld(n.c[i]) \cup rest.ld]
           g == go(1)
       IN [t |-> Kid(Mk(g.k, g.v, g.c)), ld |-> Ld(kid) \cup g.ld]

(* The intended shrink rule is the mirror of the grow rule, so that the height
   is a function of the contents (C04).  AsIsShrink is the rule of the pinned
   release ("size < bf^h" only), kept to show non-vacuity of the height
   property (MC_Core_asis.cfg must FAIL HeightOK).                          *)
ShrinkCond(kid, h, sz, bf, asis) ==
  IF asis THEN h > 0 /\ sz < Pow(bf, h)
  ELSE h > 0 /\ (sz <= Pow(bf, h) \/ kid = <<>> \/ Len(kid[1].k) = 0)
RECURSIVE ShrinkLoop(_, _, _, _, _, _)
ShrinkLoop(kid, h, sz, ld, bf, asis) ==
  IF ShrinkCond(kid, h, sz, bf, asis)
  THEN LET s == ShrinkOnce(kid) IN ShrinkLoop(s.t, h-1, sz, ld \cup s.ld \cup Ld(kid), bf, asis)
  ELSE [t |-> kid, h |-> h, ld |-> ld]

(* ---------------- observation helpers ---------------- *)
\* a decoded tree may come from a defective writer: as many values as keys and one more child slot, in every node
RECURSIVE WellFormed(_)
WellFormed(kid) == kid = <<>> \/ (/\ Len(kid[1].v) = Len(kid[1].k) /\ Len(kid[1].c) = Len(kid[1].k) + 1
                                   /\ \A j \in DOMAIN kid[1].c : WellFormed(kid[1].c[j]))

RECURSIVE Entries(_)
Entries(kid) ==
  IF kid = <<>> THEN <<>>
  ELSE LET n == kid[1]
           RECURSIVE go(_)
           go(i) == IF i > Len(n.c) THEN <<>>
                    ELSE Entries(n.c[i]) \o (IF i <= Len(n.k) THEN << <<n.k[i], n.v[i]>> >> ELSE <<>>) \o go(i+1)
       IN go(1)

RECURSIVE Strip(_)   \* forget residency: the content term (= the node's name)
Strip(kid) == IF kid = <<>> THEN <<>>
              ELSE LET n == kid[1] IN <<[k |-> n.k, v |-> n.v, c |-> [i \in 1..Len(n.c) |-> Strip(n.c[i])]]>>
RECURSIVE AllClean(_)   \* after a successful MakeRoot every node is persisted
AllClean(kid) == IF kid = <<>> THEN <<>>
                 ELSE LET n == kid[1] IN <<[n EXCEPT !.m = FALSE, !.c = [i \in 1..Len(n.c) |-> AllClean(n.c[i])]]>>
RECURSIVE Resident(_)   \* a stripped term seen as a fully persisted tree
Resident(kid) == IF kid = <<>> THEN <<>>
                 ELSE LET n == kid[1] IN <<[k |-> n.k, v |-> n.v, m |-> FALSE, c |-> [i \in 1..Len(n.c) |-> Resident(n.c[i])]]>>
RECURSIVE MemNodes(_)   \* names of the dirty nodes = what a MakeRoot issued now writes
MemNodes(kid) == IF kid = <<>> THEN {} ELSE LET n == kid[1] IN
   (IF n.m THEN {Strip(kid)[1]} ELSE {}) \cup UNION {MemNodes(n.c[i]) : i \in 1..Len(n.c)}
RECURSIVE Reach(_)      \* names reachable from a (stripped or not) kid
Reach(kid) == IF kid = <<>> THEN {} ELSE LET n == kid[1] IN
   {Strip(kid)[1]} \cup UNION {Reach(n.c[i]) : i \in 1..Len(n.c)}
RECURSIVE Ranges(_, _, _)  \* <<name, lo, hi>>: closed key range given by the bounding ancestor keys
Ranges(kid, lo, hi) == IF kid = <<>> THEN {} ELSE LET n == kid[1] IN
   {<<Strip(kid)[1], lo, hi>>} \cup
   UNION {Ranges(n.c[i], IF i = 1 THEN lo ELSE n.k[i-1], IF i = Len(n.c) THEN hi ELSE n.k[i]) : i \in 1..Len(n.c)}

(* ---------------- independent reference: canonical tree, height rule, shape *)
RECURSIVE Canon(_, _, _)
Canon(es, layer, d) ==   \* es: ascending sequence of <<k, v>>; d: level of the node to build
  IF Len(es) = 0 THEN <<>>
  ELSE LET idx == SelectSeq([i \in 1..Len(es) |-> i], LAMBDA i: layer[es[i][1]] >= d)
           n == Len(idx)
           b(j) == IF j = 0 THEN 0 ELSE IF j = n+1 THEN Len(es)+1 ELSE idx[j]
           kid(j) == IF d = 0 THEN <<>> ELSE Canon(SubSeq(es, b(j-1)+1, b(j)-1), layer, d-1)
       IN <<[k |-> [j \in 1..n |-> es[idx[j]][1]], v |-> [j \in 1..n |-> es[idx[j]][2]], c |-> [j \in 1..n+1 |-> kid(j)]]>>

\* height = min(highest key layer, floor(log_bf(size-1))), 0 below two entries
RECURSIVE LogFloorR(_, _, _, _)
LogFloorR(b, x, h, p) == IF p * b > x THEN h ELSE LogFloorR(b, x, h + 1, p * b)    \* largest h with b^h <= x (x >= 1); no large powers
LogFloor(b, x) == LogFloorR(b, x, 0, 1)
RuleHeight(keys, layer, bf) ==
  LET n == Cardinality(keys) IN
  IF n < 2 THEN 0
  ELSE Min({Max({layer[k] : k \in keys}), LogFloor(bf, n - 1)})

(* C09 written directly on a stripped term (no use of Canon).  lvl is the level
   of the node (H at the top), lo/hi the open bounds from the ancestors,
   top = TRUE for the top node (which also holds higher-layer keys).        *)
RECURSIVE ShapeNode(_, _, _, _, _, _)
ShapeNode(n, lvl, lo, hi, top, layer) ==
  /\ lvl >= 0
  /\ Len(n.v) = Len(n.k) /\ Len(n.c) = Len(n.k) + 1
  /\ \A i \in 1..Len(n.k): (IF top THEN layer[n.k[i]] >= lvl ELSE layer[n.k[i]] = lvl) /\ lo < n.k[i] /\ n.k[i] < hi
  /\ \A i \in 1..Len(n.k)-1: n.k[i] < n.k[i+1]
  /\ lvl = 0 => \A i \in 1..Len(n.c): n.c[i] = <<>>
  /\ Len(n.k) = 0 => (Len(n.c) = 1 /\ n.c[1] # <<>>)             \* only single-child pass-through nodes are entry-less
  /\ \A i \in 1..Len(n.c): n.c[i] # <<>> =>
        /\ ShapeNode(n.c[i][1], lvl-1, IF i = 1 THEN lo ELSE n.k[i-1], IF i = Len(n.c) THEN hi ELSE n.k[i], FALSE, layer)
        \* the child holds every key of its range that belongs to a lower level: nothing of level lvl hides below
        /\ \A e \in ToSet(Entries(n.c[i])): layer[e[1]] < lvl
Shape(kid, H, layer, hiKey) == kid = <<>> \/ ShapeNode(kid[1], H, 0, hiKey, TRUE, layer)

SortedPairs(m) == LET ks == SetToSortSeq(DOMAIN m, <) IN [i \in 1..Len(ks) |-> <<ks[i], m[ks[i]]>>]
MapPut(m, k, v) == [x \in DOMAIN m \cup {k} |-> IF x = k THEN v ELSE m[x]]
MapDel(m, k) == [x \in DOMAIN m \ {k} |-> m[x]]
=============================================================================
