SPECIFICATION Spec
CONSTANTS
 Trees = {1, 2, 3}
 MaxObj = 8
 Names = {1, 2}
 Deviations = "intended"
 UseCache = TRUE
 Evicting = FALSE
INVARIANTS SharedObjectsNeverWritten DirtyImpliesPrivate UnsharedHasOneOwner CacheAgreesWithStore
CHECK_DEADLOCK FALSE
