SPECIFICATION Spec
CONSTANTS
 NK = 4
 BF = 2
 MaxLayer = 2
 OnlyTall = FALSE
INVARIANTS StepOK Emit
CHECK_DEADLOCK FALSE
