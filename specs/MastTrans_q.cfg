SPECIFICATION Spec
CONSTANTS
 NK = 4
 BF = 2
 MaxLayer = 2
INVARIANTS StepOK Emit
CHECK_DEADLOCK FALSE
