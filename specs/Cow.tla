-------------------------------- MODULE Cow --------------------------------
(* Object-level copy-on-write discipline of jrhy/mast (C02 at the mechanism
   level, C11): node OBJECTS with the code's flags shared / dirty, trees that
   reach objects by pointer or by name, the node cache that hands the same
   deserialized object to every tree loading a name, Clone (ToShared), the
   path copy of savePathForRoot (ToMut), follow(createOk), MakeRoot, and the
   eviction of cache entries (the same name then gets a second object).
   Two-level trees (a top node with one child slot) are enough to exhibit
   every sharing pattern: a tree's object is reachable by another tree through
   Clone or through the cache.  Each tree belongs to one goroutine; a write to
   an object that another party can reach is a conflicting access (data race)
   and a change of a captured version.
   Deviations = "asis" enables the write the pinned release makes into a
   possibly shared node (follow(createOk) storing the new child link into the
   node it was given, lib.go:249-251); it must make the invariants fail.     *)
EXTENDS Integers, Sequences, FiniteSets, TLC
CONSTANTS Trees, MaxObj, Names, Deviations, UseCache, Evicting
Obj == 1..MaxObj
NoObj == 0
\* link: [t |-> "nil"] | [t |-> "ptr", o |-> Obj] | [t |-> "name", n |-> Names]
Nil == [t |-> "nil", o |-> 0, n |-> 0]
Ptr(o) == [t |-> "ptr", o |-> o, n |-> 0]
Nm(n) == [t |-> "name", o |-> 0, n |-> n]

VARIABLES heap,     \* Obj -> [used, shared, dirty, link, ver]   (ver: abstract content version)
          root,     \* Trees -> link
          alive,    \* Trees -> BOOLEAN
          cache,    \* Names -> Obj or NoObj
          stored,   \* Names -> [link, ver] or "none": what the name denotes in the store
          nextName, badWrite
vars == <<heap, root, alive, cache, stored, nextName, badWrite>>

Free == {o \in Obj : ~heap[o].used}
Fresh == CHOOSE o \in Free : \A p \in Free : o <= p
Blank == [used |-> FALSE, shared |-> FALSE, dirty |-> FALSE, link |-> Nil, ver |-> 0]

\* objects reachable by pointer from tree t
RECURSIVE ReachFrom(_, _)
ReachFrom(l, fuel) == IF l.t # "ptr" \/ fuel = 0 THEN {} ELSE {l.o} \cup ReachFrom(heap[l.o].link, fuel - 1)
Reach(t) == IF alive[t] THEN ReachFrom(root[t], 3) ELSE {}
InCache(o) == \E n \in Names : cache[n] = o
\* an object another party can observe: in the cache, or reachable from a different tree
Published(o, t) == InCache(o) \/ \E u \in Trees \ {t} : o \in Reach(u)

Init == /\ heap = [o \in Obj |-> Blank] /\ root = [t \in Trees |-> Nil] /\ alive = [t \in Trees |-> FALSE]
        /\ cache = [n \in Names |-> NoObj] /\ stored = [n \in Names |-> [has |-> FALSE, link |-> Nil, ver |-> 0]] /\ nextName = 1 /\ badWrite = {}

\* a write by tree t to object o: record it if o is observable by someone else
Wr(t, o) == IF Published(o, t) THEN badWrite \cup {<<t, o>>} ELSE badWrite

New(t) == /\ ~alive[t] /\ alive' = [alive EXCEPT ![t] = TRUE] /\ root' = [root EXCEPT ![t] = Nil]
          /\ UNCHANGED <<heap, cache, stored, nextName, badWrite>>

\* load(link): pointer -> itself; name -> cached object, or a freshly deserialized shared object (added to cache if any)
\* modelled as an action that turns a name link at the top of t into a pointer (what happens on any descent)
LoadTop(t) == /\ alive[t] /\ root[t].t = "name" /\ stored[root[t].n].has
              /\ LET n == root[t].n IN
                 IF UseCache /\ cache[n] # NoObj
                 THEN /\ root' = [root EXCEPT ![t] = Ptr(cache[n])] /\ UNCHANGED <<heap, cache>>
                 ELSE /\ Free # {}
                      /\ heap' = [heap EXCEPT ![Fresh] = [used |-> TRUE, shared |-> TRUE, dirty |-> FALSE, link |-> stored[n].link, ver |-> stored[n].ver]]
                      /\ root' = [root EXCEPT ![t] = Ptr(Fresh)]
                      /\ cache' = IF UseCache THEN [cache EXCEPT ![n] = Fresh] ELSE cache
              /\ UNCHANGED <<alive, stored, nextName, badWrite>>

\* ToMut: copy if shared
\* Modify the top node of t (insert/update/delete at the top level) via savePathForRoot rules
ModifyTop(t) ==
  /\ alive[t]
  /\ \/ /\ root[t].t = "nil" /\ Free # {}                    \* emptyNodePointer
        /\ heap' = [heap EXCEPT ![Fresh] = [used |-> TRUE, shared |-> FALSE, dirty |-> TRUE, link |-> Nil, ver |-> 1]]
        /\ root' = [root EXCEPT ![t] = Ptr(Fresh)] /\ UNCHANGED badWrite
     \/ /\ root[t].t = "ptr"
        /\ LET o == root[t].o IN
           IF heap[o].shared /\ ~heap[o].dirty                 \* not dirty => ToMut => copy because shared
           THEN /\ Free # {}
                /\ heap' = [heap EXCEPT ![Fresh] = [heap[o] EXCEPT !.shared = FALSE, !.dirty = TRUE, !.ver = (heap[o].ver + 1) % 4]]
                /\ root' = [root EXCEPT ![t] = Ptr(Fresh)] /\ UNCHANGED badWrite
           ELSE /\ heap' = [heap EXCEPT ![o].dirty = TRUE, ![o].ver = (heap[o].ver + 1) % 4]   \* in place
                /\ badWrite' = Wr(t, o) /\ UNCHANGED root
  /\ UNCHANGED <<alive, cache, stored, nextName>>

\* Insert below a nil link of the top node: findNode(createMissingNodes) -> follow(createOk)
InsertBelowNil(t) ==
  /\ alive[t] /\ root[t].t = "ptr" /\ heap[root[t].o].link.t = "nil" /\ Cardinality(Free) >= 2
  /\ LET o == root[t].o
         c == Fresh
         o2 == CHOOSE x \in Free \ {c} : TRUE
         child == [used |-> TRUE, shared |-> FALSE, dirty |-> TRUE, link |-> Nil, ver |-> 1]
     IN IF Deviations = "asis"
        THEN \* follow writes node.Link[i] = child into o itself, then the path copy of o points to child too
             /\ heap' = [heap EXCEPT ![c] = child,
                                     ![o] = [heap[o] EXCEPT !.link = Ptr(c)],
                                     ![o2] = [heap[o] EXCEPT !.link = Ptr(c), !.shared = FALSE, !.dirty = TRUE, !.ver = (heap[o].ver + 1) % 4]]
             /\ badWrite' = Wr(t, o)
             /\ root' = [root EXCEPT ![t] = Ptr(o2)]
        ELSE /\ heap' = [heap EXCEPT ![c] = child,
                                     ![o2] = [heap[o] EXCEPT !.link = Ptr(c), !.shared = FALSE, !.dirty = TRUE, !.ver = (heap[o].ver + 1) % 4]]
             /\ UNCHANGED badWrite
             /\ root' = [root EXCEPT ![t] = Ptr(o2)]
  /\ UNCHANGED <<alive, cache, stored, nextName>>

\* Clone: share shared objects, deep-copy unshared ones (here: top and its pointer child)
Clone(t, u) ==
  /\ alive[t] /\ ~alive[u] /\ alive' = [alive EXCEPT ![u] = TRUE]
  /\ IF root[t].t # "ptr" \/ heap[root[t].o].shared
     THEN /\ root' = [root EXCEPT ![u] = root[t]] /\ UNCHANGED heap
     ELSE /\ Cardinality(Free) >= 2
          /\ LET o == root[t].o
                 a == Fresh
                 b == CHOOSE x \in Free \ {a} : TRUE
                 l == heap[o].link
             IN IF l.t = "ptr" /\ ~heap[l.o].shared
                THEN /\ heap' = [heap EXCEPT ![b] = heap[l.o], ![a] = [heap[o] EXCEPT !.link = Ptr(b)]]
                     /\ root' = [root EXCEPT ![u] = Ptr(a)]
                ELSE /\ heap' = [heap EXCEPT ![a] = heap[o]] /\ root' = [root EXCEPT ![u] = Ptr(a)]
  /\ UNCHANGED <<cache, stored, nextName, badWrite>>

\* MakeRoot (atomic, intended publication: flags set before the object is visible): top node only, child already named or nil
Persist(t) ==
  /\ alive[t] /\ root[t].t = "ptr" /\ nextName \in Names
  /\ LET o == root[t].o IN
     /\ heap[o].dirty /\ heap[o].link.t # "ptr"
     /\ stored' = [stored EXCEPT ![nextName] = [has |-> TRUE, link |-> heap[o].link, ver |-> heap[o].ver]]
     /\ heap' = [heap EXCEPT ![o].dirty = FALSE, ![o].shared = TRUE]
     /\ badWrite' = Wr(t, o)
     /\ cache' = IF UseCache THEN [cache EXCEPT ![nextName] = o] ELSE cache
     /\ root' = [root EXCEPT ![t] = Nm(nextName)] /\ nextName' = nextName + 1
  /\ UNCHANGED alive

\* the cache is an LRU (node_cache.go): it may drop any entry at any time; the object stays with the trees that hold it, and the
\* next tree to load the name deserializes a second object for it
Evict(n) == /\ UseCache /\ Evicting /\ cache[n] # NoObj
            /\ cache' = [cache EXCEPT ![n] = NoObj]
            /\ UNCHANGED <<heap, root, alive, stored, nextName, badWrite>>

Next == (\E t \in Trees : New(t) \/ LoadTop(t) \/ ModifyTop(t) \/ InsertBelowNil(t) \/ Persist(t) \/ \E u \in Trees \ {t} : Clone(t, u))
        \/ \E n \in Names : Evict(n)
Spec == Init /\ [][Next]_vars

SharedObjectsNeverWritten == badWrite = {}
\* the invariant that makes "dirty => edit in place" safe
DirtyImpliesPrivate == \A t \in Trees, o \in Obj : (o \in Reach(t) /\ heap[o].used /\ heap[o].dirty) => ~Published(o, t)
UnsharedHasOneOwner == \A o \in Obj : (heap[o].used /\ ~heap[o].shared) => Cardinality({t \in Trees : o \in Reach(t)}) <= 1 /\ ~InCache(o)
\* what a name denotes never changes, observed through the cache
CacheAgreesWithStore == \A n \in Names : cache[n] # NoObj => (stored[n].has /\ heap[cache[n]].ver = stored[n].ver /\ (heap[cache[n]].link.t # "ptr"))
=============================================================================
