SPECIFICATION GSpec
CONSTANTS
 NK = 5
 NV = 2
 BF = 2
 MaxLayer = 2
 NH = 3
 MaxRoots = 0
 MaxMods = 0
 TrackStore = FALSE
 AsIsShrink = FALSE
 Depth = 24
INVARIANTS Emit
CHECK_DEADLOCK FALSE
