SPECIFICATION Spec
CONSTANTS
 N = 3
 GateSize = 2
 MaxFailures = 2
 MaxAttempts = 3
 Variant = "copy"
 CleanSet = {}
 UseCache = TRUE
 ForeignCached = {1}
 PublishEarly = FALSE
 CacheKeyIgnoresPrefix = TRUE
 WithReader = TRUE
INVARIANTS NoSkipAcrossStores SuccessImpliesAllReachableStored
CHECK_DEADLOCK FALSE
