----------------------------- MODULE FlushProof -----------------------------
(* TLAPS proof that IndInv of FlushInd.tla is an inductive invariant of the flush protocol (Flush.tla, variants "copy"
   and "commit") and implies the C03 / C11 invariants, for EVERY number of nodes, gate size, failure budget and number
   of attempts.  The only arithmetic about sets is the size of the set of running workers, which the wait group and
   the gate count.     tlapm --threads 8 FlushProof.tla   *)
EXTENDS FlushInd, FiniteSetTheorems, TLAPS

ASSUME Consts ==
  /\ N \in Nat /\ GateSize \in Nat /\ MaxFailures \in Nat /\ MaxAttempts \in Nat /\ MaxAttempts >= 1
  /\ Variant \in {"copy", "commit"} /\ CleanSet \subseteq Nodes /\ ForeignCached \subseteq Nodes
  /\ UseCache \in BOOLEAN /\ WithReader \in BOOLEAN /\ CacheKeyIgnoresPrefix = FALSE /\ PublishEarly = FALSE

States == {"idle", "spawned", "storing", "stored", "done"}
Running == {"spawned", "storing", "stored"}
Act(w) == {n \in Nodes: w[n] \in Running}

LEMMA ActFinite == \A w: IsFiniteSet(Act(w)) /\ Cardinality(Act(w)) \in Nat /\ Cardinality(Act(w)) <= N
<1> TAKE w
<1>1. IsFiniteSet(Nodes) /\ Cardinality(Nodes) = N
  BY Consts, FS_Interval DEF Nodes
<1>2. Act(w) \in SUBSET Nodes
  BY DEF Act
<1>3. IsFiniteSet(Act(w)) /\ Cardinality(Act(w)) <= Cardinality(Nodes)
  BY <1>1, <1>2, FS_Subset
<1> QED
  BY <1>1, <1>3, FS_CardinalityType

LEMMA ActSame == ASSUME NEW w \in [Nodes -> States], NEW n \in Nodes, NEW s \in States, (w[n] \in Running) <=> (s \in Running)
                 PROVE Cardinality(Act([w EXCEPT ![n] = s])) = Cardinality(Act(w))
<1>1. Act([w EXCEPT ![n] = s]) = Act(w)
  BY DEF Act
<1> QED
  BY <1>1

LEMMA ActAdd == ASSUME NEW w \in [Nodes -> States], NEW n \in Nodes, NEW s \in Running, w[n] \notin Running
                PROVE Cardinality(Act([w EXCEPT ![n] = s])) = Cardinality(Act(w)) + 1
<1>1. Act([w EXCEPT ![n] = s]) = Act(w) \cup {n}
  BY DEF Act
<1>2. n \notin Act(w)
  BY DEF Act
<1> QED
  BY <1>1, <1>2, ActFinite, FS_AddElement

LEMMA ActRemove == ASSUME NEW w \in [Nodes -> States], NEW n \in Nodes, NEW s \in States \ Running, w[n] \in Running
                   PROVE Cardinality(Act([w EXCEPT ![n] = s])) = Cardinality(Act(w)) - 1
<1>1. Act([w EXCEPT ![n] = s]) = Act(w) \ {n}
  BY DEF Act
<1>2. n \in Act(w)
  BY DEF Act
<1> QED
  BY <1>1, <1>2, ActFinite, FS_RemoveElement

LEMMA ActZero == ASSUME NEW w \in [Nodes -> States], Cardinality(Act(w)) = 0
                 PROVE \A n \in Nodes: w[n] \notin Running
<1>1. Act(w) = {}
  BY ActFinite, FS_EmptySet
<1> QED
  BY <1>1 DEF Act

LEMMA ActIdle == Cardinality(Act([n \in Nodes |-> "idle"])) = 0
<1>1. Act([n \in Nodes |-> "idle"]) = {}
  BY DEF Act, Running
<1> QED
  BY <1>1, FS_EmptySet

LEMMA ActiveIsAct == Active = Act(wst) /\ Active' = Act(wst')
  BY DEF Active, Act, Running

LEMMA InitInv == Init => IndInv
<1> SUFFICES ASSUME Init PROVE IndInv
  OBVIOUS
<1>1. Cardinality(Active) = 0
  BY ActIdle, ActiveIsAct DEF Init
<1> USE Consts DEF Init, Disp, DispAlive, Nodes, None, Closed, Tags
<1>2. TypeOK BY DEF TypeOK
<1>3. InvStore BY DEF InvStore
<1>4. InvCount BY <1>1 DEF InvCount
<1>5. InvMain BY DEF InvMain
<1>6. InvChan BY DEF InvChan
<1>7. InvOnce BY DEF InvOnce
<1>8. InvErr BY DEF InvErr
<1>9. InvPub BY DEF InvPub
<1> QED
  BY <1>2, <1>3, <1>4, <1>5, <1>6, <1>7, <1>8, <1>9 DEF IndInv

LEMMA StepInv == IndInv /\ [Next]_vars => IndInv'
<1> SUFFICES ASSUME IndInv, [Next]_vars PROVE IndInv'
  OBVIOUS
<1> USE Consts DEF TypeOK, InvStore, InvCount, InvMain, InvChan, InvOnce, InvErr, InvPub, Disp, DispAlive, Nodes, None, Closed, Tags, U, MainVars, PoolVars, EnvVars, PubVars, CacheHit
<1>i. TypeOK /\ InvStore /\ InvCount /\ InvMain /\ InvChan /\ InvOnce /\ InvErr /\ InvPub
  BY DEF IndInv
<1>w. wst \in [Nodes -> States]
  BY <1>i DEF States
<1>a. Cardinality(Active) \in Nat /\ Cardinality(Active) <= N
  BY ActFinite, ActiveIsAct
<1>b. Cardinality(Active') \in Nat /\ Cardinality(Active') <= N
  BY ActFinite, ActiveIsAct
<1>z. wg = 0 => (dpc = "exit" /\ \A m \in Nodes: wst[m] \notin Running)
  BY <1>i, <1>w, <1>a, ActZero, ActiveIsAct
<1>0. CASE UNCHANGED vars
  <2>1. Cardinality(Active') = Cardinality(Active)
    BY <1>0 DEF vars, Active
  <2>p1. TypeOK'
    BY <1>0, <1>i, <2>1 DEF vars
  <2>p2. InvStore'
    BY <1>0, <1>i, <2>1 DEF vars
  <2>p3. InvCount'
    BY <1>0, <1>i, <2>1 DEF vars
  <2>p4. InvMain'
    BY <1>0, <1>i, <2>1 DEF vars
  <2>p5. InvChan'
    BY <1>0, <1>i, <2>1 DEF vars
  <2>p6. InvOnce'
    BY <1>0, <1>i, <2>1 DEF vars
  <2>p7. InvErr'
    BY <1>0, <1>i, <2>1 DEF vars
  <2>p8. InvPub'
    BY <1>0, <1>i, <2>1 DEF vars
  <2> QED BY <2>p1, <2>p2, <2>p3, <2>p4, <2>p5, <2>p6, <2>p7, <2>p8 DEF IndInv
<1>1. CASE MSkipClean
  <2>1. Cardinality(Active') = Cardinality(Active)
    BY <1>1 DEF MSkipClean, Active
  <2>p1. TypeOK'
    BY <1>1, <1>i, <2>1, <1>a, <1>b, <1>z DEF MSkipClean
  <2>p2. InvStore'
    BY <1>1, <1>i, <2>1, <1>a, <1>b, <1>z DEF MSkipClean
  <2>p3. InvCount'
    BY <1>1, <1>i, <2>1, <1>a, <1>b, <1>z DEF MSkipClean
  <2>p4. InvMain'
    BY <1>1, <1>i, <2>1, <1>a, <1>b, <1>z DEF MSkipClean
  <2>p5. InvChan'
    BY <1>1, <1>i, <2>1, <1>a, <1>b, <1>z DEF MSkipClean
  <2>p6. InvOnce'
    BY <1>1, <1>i, <2>1, <1>a, <1>b, <1>z DEF MSkipClean
  <2>p7. InvErr'
    BY <1>1, <1>i, <2>1, <1>a, <1>b, <1>z DEF MSkipClean
  <2>p8. InvPub'
    BY <1>1, <1>i, <2>1, <1>a, <1>b, <1>z DEF MSkipClean
  <2> QED BY <2>p1, <2>p2, <2>p3, <2>p4, <2>p5, <2>p6, <2>p7, <2>p8 DEF IndInv
<1>2. CASE MCacheHit
  <2>1. Cardinality(Active') = Cardinality(Active)
    BY <1>2 DEF MCacheHit, Active
  <2>p1. TypeOK'
    BY <1>2, <1>i, <2>1, <1>a, <1>b, <1>z DEF MCacheHit
  <2>p2. InvStore'
    BY <1>2, <1>i, <2>1, <1>a, <1>b, <1>z DEF MCacheHit
  <2>p3. InvCount'
    BY <1>2, <1>i, <2>1, <1>a, <1>b, <1>z DEF MCacheHit
  <2>p4. InvMain'
    BY <1>2, <1>i, <2>1, <1>a, <1>b, <1>z DEF MCacheHit
  <2>p5. InvChan'
    BY <1>2, <1>i, <2>1, <1>a, <1>b, <1>z DEF MCacheHit
  <2>p6. InvOnce'
    BY <1>2, <1>i, <2>1, <1>a, <1>b, <1>z DEF MCacheHit
  <2>p7. InvErr'
    BY <1>2, <1>i, <2>1, <1>a, <1>b, <1>z DEF MCacheHit
  <2>p8. InvPub'
    BY <1>2, <1>i, <2>1, <1>a, <1>b, <1>z DEF MCacheHit
  <2> QED BY <2>p1, <2>p2, <2>p3, <2>p4, <2>p5, <2>p6, <2>p7, <2>p8 DEF IndInv
<1>3. CASE MSend
  <2>1. Cardinality(Active') = Cardinality(Active)
    BY <1>3 DEF MSend, Active
  <2>p1. TypeOK'
    BY <1>3, <1>i, <2>1, <1>a, <1>b, <1>z DEF MSend
  <2>p2. InvStore'
    BY <1>3, <1>i, <2>1, <1>a, <1>b, <1>z DEF MSend
  <2>p3. InvCount'
    BY <1>3, <1>i, <2>1, <1>a, <1>b, <1>z DEF MSend
  <2>p4. InvMain'
    BY <1>3, <1>i, <2>1, <1>a, <1>b, <1>z DEF MSend
  <2>p5. InvChan'
    BY <1>3, <1>i, <2>1, <1>a, <1>b, <1>z DEF MSend
  <2>p6. InvOnce'
    BY <1>3, <1>i, <2>1, <1>a, <1>b, <1>z DEF MSend
  <2>p7. InvErr'
    BY <1>3, <1>i, <2>1, <1>a, <1>b, <1>z DEF MSend
  <2>p8. InvPub'
    BY <1>3, <1>i, <2>1, <1>a, <1>b, <1>z DEF MSend
  <2> QED BY <2>p1, <2>p2, <2>p3, <2>p4, <2>p5, <2>p6, <2>p7, <2>p8 DEF IndInv
<1>4. CASE MMark
  <2>1. Cardinality(Active') = Cardinality(Active)
    BY <1>4 DEF MMark, Active
  <2>p1. TypeOK'
    BY <1>4, <1>i, <2>1, <1>a, <1>b, <1>z DEF MMark, Commit
  <2>p2. InvStore'
    BY <1>4, <1>i, <2>1, <1>a, <1>b, <1>z DEF MMark, Commit
  <2>p3. InvCount'
    BY <1>4, <1>i, <2>1, <1>a, <1>b, <1>z DEF MMark, Commit
  <2>p4. InvMain'
    BY <1>4, <1>i, <2>1, <1>a, <1>b, <1>z DEF MMark, Commit
  <2>p5. InvChan'
    BY <1>4, <1>i, <2>1, <1>a, <1>b, <1>z DEF MMark, Commit
  <2>p6. InvOnce'
    BY <1>4, <1>i, <2>1, <1>a, <1>b, <1>z DEF MMark, Commit
  <2>p7. InvErr'
    BY <1>4, <1>i, <2>1, <1>a, <1>b, <1>z DEF MMark, Commit
  <2>p8. InvPub'
    BY <1>4, <1>i, <2>1, <1>a, <1>b, <1>z DEF MMark, Commit
  <2> QED BY <2>p1, <2>p2, <2>p3, <2>p4, <2>p5, <2>p6, <2>p7, <2>p8 DEF IndInv
<1>5. CASE MClose
  <2>1. Cardinality(Active') = Cardinality(Active)
    BY <1>5 DEF MClose, Active
  <2>p1. TypeOK'
    BY <1>5, <1>i, <2>1, <1>a, <1>b, <1>z DEF MClose
  <2>p2. InvStore'
    BY <1>5, <1>i, <2>1, <1>a, <1>b, <1>z DEF MClose
  <2>p3. InvCount'
    BY <1>5, <1>i, <2>1, <1>a, <1>b, <1>z DEF MClose
  <2>p4. InvMain'
    BY <1>5, <1>i, <2>1, <1>a, <1>b, <1>z DEF MClose
  <2>p5. InvChan'
    BY <1>5, <1>i, <2>1, <1>a, <1>b, <1>z DEF MClose
  <2>p6. InvOnce'
    BY <1>5, <1>i, <2>1, <1>a, <1>b, <1>z DEF MClose
  <2>p7. InvErr'
    BY <1>5, <1>i, <2>1, <1>a, <1>b, <1>z DEF MClose
  <2>p8. InvPub'
    BY <1>5, <1>i, <2>1, <1>a, <1>b, <1>z DEF MClose
  <2> QED BY <2>p1, <2>p2, <2>p3, <2>p4, <2>p5, <2>p6, <2>p7, <2>p8 DEF IndInv
<1>8. CASE DRecv
  <2>1. Cardinality(Active') = Cardinality(Active)
    BY <1>8 DEF DRecv, Active
  <2>p1. TypeOK'
    BY <1>8, <1>i, <2>1, <1>a, <1>b, <1>z DEF DRecv
  <2>p2. InvStore'
    BY <1>8, <1>i, <2>1, <1>a, <1>b, <1>z DEF DRecv
  <2>p3. InvCount'
    BY <1>8, <1>i, <2>1, <1>a, <1>b, <1>z DEF DRecv
  <2>p4. InvMain'
    BY <1>8, <1>i, <2>1, <1>a, <1>b, <1>z DEF DRecv
  <2>p5. InvChan'
    BY <1>8, <1>i, <2>1, <1>a, <1>b, <1>z DEF DRecv
  <2>p6. InvOnce'
    BY <1>8, <1>i, <2>1, <1>a, <1>b, <1>z DEF DRecv
  <2>p7. InvErr'
    BY <1>8, <1>i, <2>1, <1>a, <1>b, <1>z DEF DRecv
  <2>p8. InvPub'
    BY <1>8, <1>i, <2>1, <1>a, <1>b, <1>z DEF DRecv
  <2> QED BY <2>p1, <2>p2, <2>p3, <2>p4, <2>p5, <2>p6, <2>p7, <2>p8 DEF IndInv
<1>14. CASE RGet
  <2>1. Cardinality(Active') = Cardinality(Active)
    BY <1>14 DEF RGet, Active
  <2>p1. TypeOK'
    BY <1>14, <1>i, <2>1, <1>a, <1>b, <1>z DEF RGet
  <2>p2. InvStore'
    BY <1>14, <1>i, <2>1, <1>a, <1>b, <1>z DEF RGet
  <2>p3. InvCount'
    BY <1>14, <1>i, <2>1, <1>a, <1>b, <1>z DEF RGet
  <2>p4. InvMain'
    BY <1>14, <1>i, <2>1, <1>a, <1>b, <1>z DEF RGet
  <2>p5. InvChan'
    BY <1>14, <1>i, <2>1, <1>a, <1>b, <1>z DEF RGet
  <2>p6. InvOnce'
    BY <1>14, <1>i, <2>1, <1>a, <1>b, <1>z DEF RGet
  <2>p7. InvErr'
    BY <1>14, <1>i, <2>1, <1>a, <1>b, <1>z DEF RGet
  <2>p8. InvPub'
    BY <1>14, <1>i, <2>1, <1>a, <1>b, <1>z DEF RGet
  <2> QED BY <2>p1, <2>p2, <2>p3, <2>p4, <2>p5, <2>p6, <2>p7, <2>p8 DEF IndInv
<1>15. CASE RToMut
  <2>1. Cardinality(Active') = Cardinality(Active)
    BY <1>15 DEF RToMut, Active
  <2>p1. TypeOK'
    BY <1>15, <1>i, <2>1, <1>a, <1>b, <1>z DEF RToMut
  <2>p2. InvStore'
    BY <1>15, <1>i, <2>1, <1>a, <1>b, <1>z DEF RToMut
  <2>p3. InvCount'
    BY <1>15, <1>i, <2>1, <1>a, <1>b, <1>z DEF RToMut
  <2>p4. InvMain'
    BY <1>15, <1>i, <2>1, <1>a, <1>b, <1>z DEF RToMut
  <2>p5. InvChan'
    BY <1>15, <1>i, <2>1, <1>a, <1>b, <1>z DEF RToMut
  <2>p6. InvOnce'
    BY <1>15, <1>i, <2>1, <1>a, <1>b, <1>z DEF RToMut
  <2>p7. InvErr'
    BY <1>15, <1>i, <2>1, <1>a, <1>b, <1>z DEF RToMut
  <2>p8. InvPub'
    BY <1>15, <1>i, <2>1, <1>a, <1>b, <1>z DEF RToMut
  <2> QED BY <2>p1, <2>p2, <2>p3, <2>p4, <2>p5, <2>p6, <2>p7, <2>p8 DEF IndInv
<1>6. CASE MWait
  <2>1. Cardinality(Active') = Cardinality(Active)
    BY <1>6 DEF MWait, Active
  <2>2. dpc = "exit" /\ \A n \in Nodes: wst[n] \notin Running
    BY <1>6, <1>z DEF MWait
  <2>3. ~firstErr => Nodes \subseteq store
    <3> SUFFICES ASSUME ~firstErr, NEW n \in Nodes PROVE n \in store
      OBVIOUS
    <3>1. cur = N + 1 /\ result = "none" /\ chan = None
      BY <1>6, <1>i DEF MWait
    <3>2. flags[n] \/ n \in cache \/ wst[n] # "idle"
      BY <3>1, <2>2, <1>i
    <3>3. wst[n] # "idle" => wst[n] = "done"
      BY <2>2, <1>i DEF Running
    <3> QED BY <3>2, <3>3, <1>i
  <2>p1. TypeOK'
    BY <1>6, <1>i, <2>1, <2>2, <2>3, <1>a, <1>b, <1>z DEF MWait, Commit, Running
  <2>p2. InvStore'
    BY <1>6, <1>i, <2>1, <2>2, <2>3, <1>a, <1>b, <1>z DEF MWait, Commit, Running
  <2>p3. InvCount'
    BY <1>6, <1>i, <2>1, <2>2, <2>3, <1>a, <1>b, <1>z DEF MWait, Commit, Running
  <2>p4. InvMain'
    BY <1>6, <1>i, <2>1, <2>2, <2>3, <1>a, <1>b, <1>z DEF MWait, Commit, Running
  <2>p5. InvChan'
    BY <1>6, <1>i, <2>1, <2>2, <2>3, <1>a, <1>b, <1>z DEF MWait, Commit, Running
  <2>p6. InvOnce'
    BY <1>6, <1>i, <2>1, <2>2, <2>3, <1>a, <1>b, <1>z DEF MWait, Commit, Running
  <2>p7. InvErr'
    BY <1>6, <1>i, <2>1, <2>2, <2>3, <1>a, <1>b, <1>z DEF MWait, Commit, Running
  <2>p8. InvPub'
    BY <1>6, <1>i, <2>1, <2>2, <2>3, <1>a, <1>b, <1>z DEF MWait, Commit, Running
  <2> QED BY <2>p1, <2>p2, <2>p3, <2>p4, <2>p5, <2>p6, <2>p7, <2>p8 DEF IndInv
<1>7. CASE MRetry
  <2>1. Cardinality(Active') = 0
    BY <1>7, ActIdle, ActiveIsAct DEF MRetry
  <2>p1. TypeOK'
    BY <1>7, <1>i, <2>1, <1>a, <1>b, <1>z DEF MRetry
  <2>p2. InvStore'
    BY <1>7, <1>i, <2>1, <1>a, <1>b, <1>z DEF MRetry
  <2>p3. InvCount'
    BY <1>7, <1>i, <2>1, <1>a, <1>b, <1>z DEF MRetry
  <2>p4. InvMain'
    BY <1>7, <1>i, <2>1, <1>a, <1>b, <1>z DEF MRetry
  <2>p5. InvChan'
    BY <1>7, <1>i, <2>1, <1>a, <1>b, <1>z DEF MRetry
  <2>p6. InvOnce'
    BY <1>7, <1>i, <2>1, <1>a, <1>b, <1>z DEF MRetry
  <2>p7. InvErr'
    BY <1>7, <1>i, <2>1, <1>a, <1>b, <1>z DEF MRetry
  <2>p8. InvPub'
    BY <1>7, <1>i, <2>1, <1>a, <1>b, <1>z DEF MRetry
  <2> QED BY <2>p1, <2>p2, <2>p3, <2>p4, <2>p5, <2>p6, <2>p7, <2>p8 DEF IndInv
<1>9. CASE DGate
  <2>1. CASE df = Closed
    <3>1. Cardinality(Active') = Cardinality(Active)
      BY <1>9, <2>1 DEF DGate, Active
    <3>p1. TypeOK'
      BY <1>9, <1>i, <2>1, <3>1, <1>a, <1>b, <1>z DEF DGate
    <3>p2. InvStore'
      BY <1>9, <1>i, <2>1, <3>1, <1>a, <1>b, <1>z DEF DGate
    <3>p3. InvCount'
      BY <1>9, <1>i, <2>1, <3>1, <1>a, <1>b, <1>z DEF DGate
    <3>p4. InvMain'
      BY <1>9, <1>i, <2>1, <3>1, <1>a, <1>b, <1>z DEF DGate
    <3>p5. InvChan'
      BY <1>9, <1>i, <2>1, <3>1, <1>a, <1>b, <1>z DEF DGate
    <3>p6. InvOnce'
      BY <1>9, <1>i, <2>1, <3>1, <1>a, <1>b, <1>z DEF DGate
    <3>p7. InvErr'
      BY <1>9, <1>i, <2>1, <3>1, <1>a, <1>b, <1>z DEF DGate
    <3>p8. InvPub'
      BY <1>9, <1>i, <2>1, <3>1, <1>a, <1>b, <1>z DEF DGate
    <3> QED BY <3>p1, <3>p2, <3>p3, <3>p4, <3>p5, <3>p6, <3>p7, <3>p8 DEF IndInv
  <2>2. CASE df # Closed
    <3>0. df \in Nodes /\ wst[df] = "idle"
      BY <1>9, <1>i, <2>2 DEF DGate
    <3>1. Cardinality(Active') = Cardinality(Active) + 1
      BY <1>9, <2>2, <3>0, <1>w, ActAdd, ActiveIsAct DEF DGate, Running
    <3>p1. TypeOK'
      BY <1>9, <1>i, <2>2, <3>0, <3>1, <1>a, <1>b, <1>z DEF DGate
    <3>p2. InvStore'
      BY <1>9, <1>i, <2>2, <3>0, <3>1, <1>a, <1>b, <1>z DEF DGate
    <3>p3. InvCount'
      BY <1>9, <1>i, <2>2, <3>0, <3>1, <1>a, <1>b, <1>z DEF DGate
    <3>p4. InvMain'
      BY <1>9, <1>i, <2>2, <3>0, <3>1, <1>a, <1>b, <1>z DEF DGate
    <3>p5. InvChan'
      BY <1>9, <1>i, <2>2, <3>0, <3>1, <1>a, <1>b, <1>z DEF DGate
    <3>p6. InvOnce'
      BY <1>9, <1>i, <2>2, <3>0, <3>1, <1>a, <1>b, <1>z DEF DGate
    <3>p7. InvErr'
      BY <1>9, <1>i, <2>2, <3>0, <3>1, <1>a, <1>b, <1>z DEF DGate
    <3>p8. InvPub'
      BY <1>9, <1>i, <2>2, <3>0, <3>1, <1>a, <1>b, <1>z DEF DGate
    <3> QED BY <3>p1, <3>p2, <3>p3, <3>p4, <3>p5, <3>p6, <3>p7, <3>p8 DEF IndInv
  <2> QED BY <2>1, <2>2
<1>10. ASSUME NEW n \in Nodes, WCheck(n) PROVE IndInv'
  <2>1. CASE firstErr
    <3>1. Cardinality(Active') = Cardinality(Active) - 1
      BY <1>10, <2>1, <1>w, ActRemove, ActiveIsAct DEF WCheck, Done, Running, States
    <3>p1. TypeOK'
      BY <1>10, <1>i, <2>1, <3>1, <1>a, <1>b, <1>z DEF WCheck, Done
    <3>p2. InvStore'
      BY <1>10, <1>i, <2>1, <3>1, <1>a, <1>b, <1>z DEF WCheck, Done
    <3>p3. InvCount'
      BY <1>10, <1>i, <2>1, <3>1, <1>a, <1>b, <1>z DEF WCheck, Done
    <3>p4. InvMain'
      BY <1>10, <1>i, <2>1, <3>1, <1>a, <1>b, <1>z DEF WCheck, Done
    <3>p5. InvChan'
      BY <1>10, <1>i, <2>1, <3>1, <1>a, <1>b, <1>z DEF WCheck, Done
    <3>p6. InvOnce'
      BY <1>10, <1>i, <2>1, <3>1, <1>a, <1>b, <1>z DEF WCheck, Done
    <3>p7. InvErr'
      BY <1>10, <1>i, <2>1, <3>1, <1>a, <1>b, <1>z DEF WCheck, Done
    <3>p8. InvPub'
      BY <1>10, <1>i, <2>1, <3>1, <1>a, <1>b, <1>z DEF WCheck, Done
    <3> QED BY <3>p1, <3>p2, <3>p3, <3>p4, <3>p5, <3>p6, <3>p7, <3>p8 DEF IndInv
  <2>2. CASE ~firstErr
    <3>1. Cardinality(Active') = Cardinality(Active)
      BY <1>10, <2>2, <1>w, ActSame, ActiveIsAct DEF WCheck, Running, States
    <3>p1. TypeOK'
      BY <1>10, <1>i, <2>2, <3>1, <1>a, <1>b, <1>z DEF WCheck
    <3>p2. InvStore'
      BY <1>10, <1>i, <2>2, <3>1, <1>a, <1>b, <1>z DEF WCheck
    <3>p3. InvCount'
      BY <1>10, <1>i, <2>2, <3>1, <1>a, <1>b, <1>z DEF WCheck
    <3>p4. InvMain'
      BY <1>10, <1>i, <2>2, <3>1, <1>a, <1>b, <1>z DEF WCheck
    <3>p5. InvChan'
      BY <1>10, <1>i, <2>2, <3>1, <1>a, <1>b, <1>z DEF WCheck
    <3>p6. InvOnce'
      BY <1>10, <1>i, <2>2, <3>1, <1>a, <1>b, <1>z DEF WCheck
    <3>p7. InvErr'
      BY <1>10, <1>i, <2>2, <3>1, <1>a, <1>b, <1>z DEF WCheck
    <3>p8. InvPub'
      BY <1>10, <1>i, <2>2, <3>1, <1>a, <1>b, <1>z DEF WCheck
    <3> QED BY <3>p1, <3>p2, <3>p3, <3>p4, <3>p5, <3>p6, <3>p7, <3>p8 DEF IndInv
  <2> QED BY <2>1, <2>2
<1>11. ASSUME NEW n \in Nodes, WStoreOk(n) PROVE IndInv'
  <2>1. Cardinality(Active') = Cardinality(Active)
    BY <1>11, <1>w, ActSame, ActiveIsAct DEF WStoreOk, Running, States
  <2>p1. TypeOK'
    BY <1>11, <1>i, <2>1, <1>a, <1>b, <1>z DEF WStoreOk
  <2>p2. InvStore'
    BY <1>11, <1>i, <2>1, <1>a, <1>b, <1>z DEF WStoreOk
  <2>p3. InvCount'
    BY <1>11, <1>i, <2>1, <1>a, <1>b, <1>z DEF WStoreOk
  <2>p4. InvMain'
    BY <1>11, <1>i, <2>1, <1>a, <1>b, <1>z DEF WStoreOk
  <2>p5. InvChan'
    BY <1>11, <1>i, <2>1, <1>a, <1>b, <1>z DEF WStoreOk
  <2>p6. InvOnce'
    BY <1>11, <1>i, <2>1, <1>a, <1>b, <1>z DEF WStoreOk
  <2>p7. InvErr'
    BY <1>11, <1>i, <2>1, <1>a, <1>b, <1>z DEF WStoreOk
  <2>p8. InvPub'
    BY <1>11, <1>i, <2>1, <1>a, <1>b, <1>z DEF WStoreOk
  <2> QED BY <2>p1, <2>p2, <2>p3, <2>p4, <2>p5, <2>p6, <2>p7, <2>p8 DEF IndInv
<1>12. ASSUME NEW n \in Nodes, WPublish(n) PROVE IndInv'
  <2>1. Cardinality(Active') = Cardinality(Active) - 1
    BY <1>12, <1>w, ActRemove, ActiveIsAct DEF WPublish, Done, Running, States
  <2>p1. TypeOK'
    BY <1>12, <1>i, <2>1, <1>a, <1>b, <1>z DEF WPublish, Done
  <2>p2. InvStore'
    BY <1>12, <1>i, <2>1, <1>a, <1>b, <1>z DEF WPublish, Done
  <2>p3. InvCount'
    BY <1>12, <1>i, <2>1, <1>a, <1>b, <1>z DEF WPublish, Done
  <2>p4. InvMain'
    BY <1>12, <1>i, <2>1, <1>a, <1>b, <1>z DEF WPublish, Done
  <2>p5. InvChan'
    BY <1>12, <1>i, <2>1, <1>a, <1>b, <1>z DEF WPublish, Done
  <2>p6. InvOnce'
    BY <1>12, <1>i, <2>1, <1>a, <1>b, <1>z DEF WPublish, Done
  <2>p7. InvErr'
    BY <1>12, <1>i, <2>1, <1>a, <1>b, <1>z DEF WPublish, Done
  <2>p8. InvPub'
    BY <1>12, <1>i, <2>1, <1>a, <1>b, <1>z DEF WPublish, Done
  <2> QED BY <2>p1, <2>p2, <2>p3, <2>p4, <2>p5, <2>p6, <2>p7, <2>p8 DEF IndInv
<1>13. ASSUME NEW n \in Nodes, WStoreFail(n) PROVE IndInv'
  <2>1. Cardinality(Active') = Cardinality(Active) - 1
    BY <1>13, <1>w, ActRemove, ActiveIsAct DEF WStoreFail, Done, Running, States
  <2>p1. TypeOK'
    BY <1>13, <1>i, <2>1, <1>a, <1>b, <1>z DEF WStoreFail, Done
  <2>p2. InvStore'
    BY <1>13, <1>i, <2>1, <1>a, <1>b, <1>z DEF WStoreFail, Done
  <2>p3. InvCount'
    BY <1>13, <1>i, <2>1, <1>a, <1>b, <1>z DEF WStoreFail, Done
  <2>p4. InvMain'
    BY <1>13, <1>i, <2>1, <1>a, <1>b, <1>z DEF WStoreFail, Done
  <2>p5. InvChan'
    BY <1>13, <1>i, <2>1, <1>a, <1>b, <1>z DEF WStoreFail, Done
  <2>p6. InvOnce'
    BY <1>13, <1>i, <2>1, <1>a, <1>b, <1>z DEF WStoreFail, Done
  <2>p7. InvErr'
    BY <1>13, <1>i, <2>1, <1>a, <1>b, <1>z DEF WStoreFail, Done
  <2>p8. InvPub'
    BY <1>13, <1>i, <2>1, <1>a, <1>b, <1>z DEF WStoreFail, Done
  <2> QED BY <2>p1, <2>p2, <2>p3, <2>p4, <2>p5, <2>p6, <2>p7, <2>p8 DEF IndInv
<1> QED
  BY <1>0, <1>1, <1>2, <1>3, <1>4, <1>5, <1>6, <1>7, <1>8, <1>9, <1>10, <1>11, <1>12, <1>13, <1>14, <1>15 DEF Next

LEMMA InvProps == IndInv => Props
<1> SUFFICES ASSUME IndInv PROVE Props
  OBVIOUS
<1>i. TypeOK /\ InvStore /\ InvCount /\ InvMain /\ InvChan /\ InvOnce /\ InvErr /\ InvPub
  BY DEF IndInv
<1> USE Consts DEF TypeOK, InvStore, InvCount, InvMain, InvChan, InvOnce, InvErr, InvPub, DispAlive, Nodes
<1>a. Cardinality(Active) \in Nat
  BY ActFinite, ActiveIsAct
<1>w. wst \in [Nodes -> States]
  BY <1>i DEF States
<1>1. mpc = "returned" => \A n \in Nodes: wst[n] \notin Running
  BY <1>i, <1>a, <1>w, ActZero, ActiveIsAct
<1>2. GateRespected
  BY <1>i, <1>a DEF GateRespected, Active
<1>3. CacheImpliesStored /\ SuccessImpliesAllReachableStored /\ FailureLeavesTreeUsable /\ NoSkipAcrossStores
  BY <1>i DEF CacheImpliesStored, SuccessImpliesAllReachableStored, FailureLeavesTreeUsable, NoSkipAcrossStores
<1>4. NoWriteInFlightAtReturn
  BY <1>i, <1>1 DEF NoWriteInFlightAtReturn, Running
<1>5. ErrorsSurface
  BY <1>i DEF ErrorsSurface
<1>6. Variant = "copy" => (PublishedObjectsAreFrozen /\ NoInPlaceEditOfPublished)
  BY <1>i DEF PublishedObjectsAreFrozen, NoInPlaceEditOfPublished
<1> QED
  BY <1>2, <1>3, <1>4, <1>5, <1>6 DEF Props

THEOREM Safety == Spec => []Props
<1>1. Spec => []IndInv
  BY InitInv, StepInv, PTL DEF Spec
<1> QED
  BY <1>1, InvProps, PTL
=============================================================================
