#!/bin/bash
# Offline setup: nothing to download. Verifies the tools the checks need and pre-compiles the harness once
# (every check rebuilds it from /repo's working tree anyway).
set -e
cd "$(dirname "$0")"
export GOFLAGS=-mod=mod GOPROXY=off GOSUMDB=off GOTOOLCHAIN=local
command -v java >/dev/null
command -v go >/dev/null
test -f /opt/veriftools/tla/tla2tools.jar
chmod +x check tlc.sh
d=$(mktemp -d)
cp harness/* "$d"/ && cp /repo/go.sum "$d"/ && (cd "$d" && go build -tags verif -o mastdrv . )
rm -rf "$d"
mkdir -p evidence replays
echo setup ok
