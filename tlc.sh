#!/bin/bash
# usage: tlc.sh <heapGB> <workers> <cfg> <module.tla> [extra TLC args]   (run in a scratch dir holding the specs)
heap=$1; workers=$2; cfg=$3; mod=$4; shift 4
exec java -XX:+UseParallelGC -Xmx${heap}g -Xss512m -cp /opt/veriftools/tla/tla2tools.jar:/opt/veriftools/tla/CommunityModules-deps.jar tlc2.TLC -workers $workers -config $cfg -metadir $PWD/meta.$$ "$@" $mod
