#!/bin/bash
# usage: verify_mutant.sh <mutant-dir (patch.diff, demo_test.go, meta.json)> <scratch-worktree>
# Confirms independently: patch applies, library builds, existing suite passes, demo FAILS with the patch and PASSES without it.
d=$1; wt=$2
export GOFLAGS=-mod=mod GOPROXY=off GOSUMDB=off GOTOOLCHAIN=local
cd "$wt" || exit 2
git checkout -q -- . ; git clean -fdq
demo=$(ls "$d"/*_test.go 2>/dev/null | head -1)
[ -z "$demo" ] && { echo "NO-DEMO"; exit 2; }
sub=.
grep -q "persist/file" "$d/meta.json" && grep -q "^package file" "$demo" && sub=persist/file
grep -q "^package s3" "$demo" && sub=persist/s3
grep -q "^package file" "$demo" && sub=persist/file
tests=$(grep -oE "^func (Test[A-Za-z0-9_]+)" "$demo" | awk '{print $2}' | paste -sd'|')
race=""; grep -q -- "-race" "$d/meta.json" && race="-race"
run_demo() { cp "$demo" "$sub/zz_demo_test.go"; go test -vet=off -count=1 $race -run "^($tests)\$" ./$sub > /tmp/demo.$$.out 2>&1; rc=$?; rm -f "$sub/zz_demo_test.go"; return $rc; }
run_demo; base=$?
git apply "$d/patch.diff" || { echo "PATCH-DOES-NOT-APPLY"; exit 2; }
go build ./... || { echo "DOES-NOT-BUILD"; git checkout -q -- .; exit 2; }
suite=FAIL
for i in 1 2; do if go test -vet=off -count=1 ./... > /tmp/suite.$$.out 2>&1; then suite=PASS; break; fi; done
run_demo; mut=$?
git checkout -q -- . ; git clean -fdq
echo "demo-without-patch=$([ $base = 0 ] && echo PASS || echo FAIL) suite-with-patch=$suite demo-with-patch=$([ $mut = 0 ] && echo PASS || echo FAIL) tests=$tests sub=$sub $race"
if [ $base = 0 ] && [ $suite = PASS ] && [ $mut != 0 ]; then echo VALID; exit 0; else tail -5 /tmp/demo.$$.out; echo INVALID; exit 1; fi
