#!/bin/bash
# usage: rematrix.sh <worktree> <out-log> <seeded-dir>...
# Re-runs, with the current machinery, the check of the property each seeded change was written against (quick tier), in a scratch
# worktree of /repo at HEAD. Changes whose patch no longer applies at HEAD are listed as such (see DESIGN 0.5).
wt=$1; out=$2; shift 2
for d in "$@"; do
  name=$(basename $d); prop=${name%%-*}
  patch=$d/patch.diff
  for alt in $d/patch_on_*.diff; do [ -f "$alt" ] && patch=$alt; done
  if ! git -C $wt apply --check $patch 2>/dev/null; then echo "$name NOAPPLY" >> $out; continue; fi
  r=$(MUT_REPO=$wt timeout 3000 ${VERIF_DIR:-/verif}/tools/try_mutant.sh $patch $prop 2>&1 | grep -E "^$prop " | head -1 | cut -c1-200)
  echo "$name $r" >> $out
done
echo "DONE $wt" >> $out
