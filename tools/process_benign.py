#!/usr/bin/env python3
"""usage: process_benign.py <Cxx> <m1|m2>        (env MUTBASE, default /tmp/mut10)
A behaviour-preserving change written by a sub-agent (patch.diff + meta.json with the argument why the property still holds):
confirm that it applies, builds and passes the repository's suite in its scratch worktree, run the property's check and its
neighbours against it, and file it under /verif/benign/<Cxx>-<mi>/ with what each check said.  Every check is expected to
exit 0; an alarm is either a change that is not behaviour-preserving after all (to be shown by a failing input) or a false
alarm of the check (to be corrected)."""
import json, os, shutil, subprocess, sys
prop, mi = sys.argv[1], sys.argv[2]
base = os.environ.get("MUTBASE", "/tmp/mut10")
src, wt = "%s/%s.out/%s" % (base, prop, mi), "%s/%s" % (base, prop)
NEIGH = dict(C01="C02 C05 C09", C02="C11 C01", C03="C11 C13", C04="C09 C01", C05="C01 C14", C06="C07 C15", C07="C06 C15", C08="C14 C13",
             C09="C04 C01", C10="C12 C16", C11="C02 C03", C12="C01 C10", C13="C03 C08", C14="C08 C19", C15="C06 C07", C16="C01 C12",
             C17="C18 C03", C18="C17 C03", C19="C05 C14")
env = dict(os.environ, GOFLAGS="-mod=mod", GOPROXY="off", GOSUMDB="off", GOTOOLCHAIN="local")
def sh(cmd, **kw):
    return subprocess.run(cmd, shell=True, cwd=wt, env=env, stdout=subprocess.PIPE, stderr=subprocess.STDOUT, text=True, **kw)
sh("git checkout -q -- . ; git clean -fdq")
patch = os.path.join(src, "patch.diff")
if sh("git apply --check %s" % patch).returncode != 0:
    print("NOT KEPT: patch does not apply"); sys.exit(1)
sh("git apply %s" % patch)
ok = sh("go build ./...").returncode == 0
suite = "FAIL"
if ok:
    for i in range(2):
        if sh("go test -vet=off -count=1 ./...").returncode == 0:
            suite = "PASS"; break
sh("git checkout -q -- . ; git clean -fdq")
if not ok or suite != "PASS":
    print("NOT KEPT: build=%s suite=%s" % (ok, suite)); sys.exit(1)
checks = [prop] + NEIGH[prop].split()
r = subprocess.run(["/verif/tools/try_mutant.sh", patch] + checks, stdout=subprocess.PIPE, stderr=subprocess.STDOUT, text=True,
                   env=dict(os.environ, MUT_REPO=wt))
print(r.stdout)
res = {}
for ln in r.stdout.splitlines():
    p = ln.split()
    if len(p) >= 2 and p[0] in checks:
        res[p[0]] = dict(result={"MISSED": "quiet", "CAUGHT": "ALARM"}.get(p[1], p[1]), detail=" ".join(p[2:])[:300])
dst = "/verif/benign/%s-%s" % (prop, mi)
os.makedirs(dst, exist_ok=True)
shutil.copy(patch, dst)
meta = json.load(open(os.path.join(src, "meta.json")))
meta["confirmed"] = "applies to /repo HEAD, builds, the repository's test suite passes with it"
meta["checks_run"] = res
json.dump(meta, open(os.path.join(dst, "meta.json"), "w"), indent=1)
print("filed under", dst, {k: x["result"] for k, x in res.items()})
