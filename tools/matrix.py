#!/usr/bin/env python3
"""Prints the markdown table of seeded changes (seeded/*/meta.json) and what the checks reported for each."""
import glob, json, os
rows = []
for d in sorted(glob.glob("/verif/seeded/*")):
    m = json.load(open(os.path.join(d, "meta.json")))
    name = os.path.basename(d)
    res = m.get("checks_run", {})
    caught = [k for k, v in res.items() if v["result"] == "CAUGHT"]
    missed = [k for k, v in res.items() if v["result"] == "MISSED"]
    s = m.get("summary", "").replace("\n", " ").replace("|", "/")
    rows.append("| %s | %s | %s | %s | %s |" % (name, s[:230] + ("..." if len(s) > 230 else ""), m.get("needs", "").replace("\n", " ").replace("|", "/")[:160],
                                              ", ".join(caught) or "-", ", ".join(missed) or "-"))
print("| seeded change | what it does | needs | caught by (quick tier) | not caught by |")
print("|---|---|---|---|---|")
print("\n".join(rows))
