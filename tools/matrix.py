#!/usr/bin/env python3
"""Prints the markdown table of seeded changes (seeded/*/meta.json) and what the checks reported for each;
with --update it replaces the table between the MATRIX markers of DESIGN.md."""
import glob, json, os, re, sys
rows = []
own = tot = 0
for d in sorted(glob.glob("/verif/seeded/*")):
    m = json.load(open(os.path.join(d, "meta.json")))
    name = os.path.basename(d)
    prop = name.split("-")[0]
    res = m.get("checks_run", {})
    caught = [k for k, v in res.items() if v["result"] == "CAUGHT"]
    missed = [k for k, v in res.items() if v["result"] != "CAUGHT"]
    tot += 1
    own += prop in caught
    s = m.get("summary", "").replace("\n", " ").replace("|", "/")
    files = ",".join(m.get("files_changed", m.get("files", []))) if isinstance(m.get("files_changed", m.get("files", [])), list) else str(m.get("files_changed"))
    rows.append("| %s | %s | %s | %s | %s |" % (name, files, s[:150] + (" ..." if len(s) > 150 else ""), ", ".join(caught) or "-", ", ".join(missed) or "-"))
table = "| change | files | what it does (see seeded/<id>/meta.json) | caught by | run but not caught by |\n|---|---|---|---|---|\n" + "\n".join(rows)
summary = "%d seeded changes, %d reported by the check of the property they were written against, %d by at least one check" % (
    tot, own, sum(1 for r in rows if r.split("|")[4].strip() != "-"))
if "--update" in sys.argv:
    p = "/verif/DESIGN.md"
    s = open(p).read()
    s = re.sub(r"<!-- MATRIX-BEGIN -->.*<!-- MATRIX-END -->", lambda _: "<!-- MATRIX-BEGIN -->\n" + summary + "\n\n" + table + "\n<!-- MATRIX-END -->", s, flags=re.S)
    open(p, "w").write(s)
print(summary)
if "--update" not in sys.argv:
    print(table)
