#!/bin/bash
# Regenerates vectors/format.ndjson from the PINNED release (commit 5b9555e of /repo), with the current event schema of the
# format driver. Needed only when the driver's event format changes; the vectors pin Format.tla to what the pinned release wrote.
set -e
export GOFLAGS=-mod=mod GOPROXY=off GOSUMDB=off GOTOOLCHAIN=local
wt=$(mktemp -d /tmp/pinwt.XXXX); hb=$(mktemp -d /tmp/hbpin.XXXX)
git -C /repo worktree add -q --detach "$wt" 5b9555e
cp /verif/harness/* "$hb"/ && cp "$wt"/go.sum "$hb"/ && sed -i "s|=> /repo|=> $wt|" "$hb"/go.mod
(cd "$hb" && go build -o mastdrv . && ./mastdrv format -n 48 -seed 424242 -out /verif/vectors/format.ndjson)
git -C /repo worktree remove --force "$wt"; git -C /repo worktree prune; rm -rf "$hb"
wc -l /verif/vectors/format.ndjson
