#!/usr/bin/env python3
"""usage: process_mutant.py <Cxx> <m1|m2> [extra check ids...]
Verifies a sub-agent's seeded change independently in its scratch worktree, runs the property's check (and extra ones)
against it through try_mutant.sh, and files it under /verif/seeded/<Cxx>-<mi>/ with what was run and what caught it."""
import json, os, shutil, subprocess, sys
prop, mi = sys.argv[1], sys.argv[2]
extra = sys.argv[3:]
base = os.environ.get("MUTBASE", "/tmp/mut")
tag = os.environ.get("MUTTAG", "")
src = "%s/%s.out/%s" % (base, prop, mi)
wt = "%s/%s" % (base, prop)
v = subprocess.run(["/verif/tools/verify_mutant.sh", src, wt], stdout=subprocess.PIPE, stderr=subprocess.STDOUT, text=True)
print(v.stdout.strip().splitlines()[-2:] if v.stdout.strip() else v.stdout)
if v.returncode != 0:
    print("NOT KEPT (not confirmed)")
    sys.exit(1)
checks = [prop] + extra
env = dict(os.environ)
if os.environ.get("USE_WORKTREE"):
    env["MUT_REPO"] = wt      # run the checks against the scratch worktree instead of /repo
r = subprocess.run(["/verif/tools/try_mutant.sh", os.path.join(src, "patch.diff")] + checks, stdout=subprocess.PIPE, stderr=subprocess.STDOUT, text=True, env=env)
print(r.stdout)
res = {}
for ln in r.stdout.splitlines():
    p = ln.split()
    if len(p) >= 2 and p[0] in checks:
        res[p[0]] = dict(result=p[1], detail=" ".join(p[2:])[:200])
dst = "/verif/seeded/%s-%s%s" % (prop, tag, mi)
os.makedirs(dst, exist_ok=True)
for f in os.listdir(src):
    shutil.copy(os.path.join(src, f), dst)
meta = json.load(open(os.path.join(src, "meta.json")))
meta["confirmed"] = dict(how="tools/verify_mutant.sh in a scratch worktree of /repo HEAD: patch applies, library builds, the repository's "
                             "test suite passes with it, the demonstration fails with it and passes without it", output=v.stdout.strip().splitlines()[-2])
meta["checks_run"] = res
meta["tier"] = os.environ.get("TIER", "quick")
json.dump(meta, open(os.path.join(dst, "meta.json"), "w"), indent=1)
print("filed under", dst, {k: x["result"] for k, x in res.items()})
