#!/bin/bash
# usage: try_mutant.sh <patch.diff> <check-id> [<check-id> ...]    (env SEED, TIER, MUT_REPO)
# Applies a seeded change to a working tree of jrhy/mast (default /repo; MUT_REPO = a scratch worktree of it), runs the named checks
# against that tree, prints one line per check, and ALWAYS restores the tree.
patch=$1; shift
repo=${MUT_REPO:-/repo}
cd "$repo" || exit 2
if [ -n "$(git status --porcelain)" ]; then echo "$repo is not clean"; exit 2; fi
restore() { git -C "$repo" checkout -- . ; git -C "$repo" clean -fdq; }
trap restore EXIT
git apply "$patch" || { echo "patch does not apply"; exit 2; }
export GOFLAGS=-mod=mod GOPROXY=off GOSUMDB=off GOTOOLCHAIN=local
go build ./... || { echo "does not build"; exit 2; }
for c in "$@"; do
  out=$(cd ${VERIF_DIR:-/verif} && VERIF_EVIDENCE_DIR=/tmp/mast-mutant-evidence VERIF_REPO="$repo" timeout 1500 ./check $c --tier ${TIER:-quick} --seed ${SEED:-1} 2>&1); rc=$?
  case $rc in 1) r=CAUGHT;; 0) r=MISSED;; *) r="UNDECIDED($rc)";; esac
  echo "$c $r  $(echo "$out" | grep -A1 '^VIOLATION' | sed -n 2p | cut -c1-160)"
  [ $rc -ge 2 ] && echo "$out" | tail -5
done
