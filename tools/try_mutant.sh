#!/bin/bash
# usage: try_mutant.sh <patch.diff> <check-id> [<check-id> ...]    (env SEED, TIER)
# Applies a seeded change to /repo's working tree, runs the named checks, prints one line per check, and ALWAYS restores /repo.
patch=$1; shift
cd /repo || exit 2
if [ -n "$(git status --porcelain)" ]; then echo "/repo is not clean"; exit 2; fi
restore() { git -C /repo checkout -- . ; git -C /repo clean -fdq; }
trap restore EXIT
git apply "$patch" || { echo "patch does not apply"; exit 2; }
export GOFLAGS=-mod=mod GOPROXY=off GOSUMDB=off GOTOOLCHAIN=local
go build ./... || { echo "does not build"; exit 2; }
for c in "$@"; do
  out=$(cd /verif && timeout 1500 ./check $c --tier ${TIER:-quick} --seed ${SEED:-1} 2>&1); rc=$?
  case $rc in 1) r=CAUGHT;; 0) r=MISSED;; *) r="UNDECIDED($rc)";; esac
  echo "$c $r  $(echo "$out" | grep -A1 '^VIOLATION' | sed -n 2p | cut -c1-160)"
  [ $rc -ge 2 ] && echo "$out" | tail -5
done
