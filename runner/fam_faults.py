"""Family "faults": C12 -- fault enumeration on the real code (every fallible call position of every operation on the prepared
trees), each run validated by TLC against TraceFaults.tla, whose normal outcomes come from the map model."""
import json, os
from common import *

PROPS = ["C12"]
ASSUME = [
    "faults are injected through the caller-supplied Persist.Load, KeyCompare, Marshal and Unmarshal; a dry run on an identically prepared tree counts the calls",
    "panics under an injected fault are counted but not judged (C12 is about calls that return an error)",
    "the post-state is observed through the same tree with the fault cleared",
]


def summary(e):
    c = e["cfg"]
    return "tree #%d prep=%s bf=%d %s/%s %s cache=%s entries=%s call=%s fault=%s@%d%s -> %s" % (
        e["id"], e["prep"], c["bf"], c["kt"], c["vt"], c["nf"], c["cache"], e["pre"]["ents"], e["call"], e["kind"], e["at"],
        ("+%d" % e["at2"]) if e["at2"] else "", e["res"])


def fault_runs(ctx, drv, n, budget, workers):
    """Run the fault enumeration on the real code and have TLC judge every run (TraceFaults.tla)."""
    trace = os.path.join(ctx.scratch, "faults.ndjson")
    run_driver(ctx, drv, ["faults", "-seed", str(ctx.seed), "-n", n, "-budget", budget, "-out", trace], timeout=3000)
    ident = lambda ln: None
    # every event is its own case; identify by line number
    lines = open(trace).read().splitlines(True)
    numbered = os.path.join(ctx.scratch, "faults_n.ndjson")
    with open(numbered, "w") as f:
        for i, ln in enumerate(lines, 1):
            e = json.loads(ln)
            e["tree"] = e["id"]
            e["id"] = i
            f.write(json.dumps(e) + "\n")
    files, chunks, start, reports = validate_parallel(ctx, "TraceFaults.tla", "TraceFaults.cfg", numbered, workers,
                                                      is_start=lambda ln: True, ident=lambda ln: json.loads(ln)["id"])
    stat, viols = {}, []
    for f, rep in zip(files, reports):
        for k, v in rep["stat"].items():
            stat[k] = stat.get(k, 0) + v
        for v in rep["viol"]:
            v["file"] = f
            viols.append(v)
    by_id = {json.loads(c[0])["id"]: c for c in chunks}

    def describe(lines, upto, v):
        e = json.loads(lines[0])
        return summary(e), dict(event=e, validate_with="specs/TraceFaults.tla"), lines[0]

    return viols, start, by_id, describe, stat, chunks


def check(ctx):
    quick = ctx.quick()
    log("== C12 (%s, seed %d): FailedOpIsStutter, RetrySucceeds" % (ctx.tier, ctx.seed))
    mc = []
    r = model_check(ctx, "MastFaults.tla", "MC_Faults_q.cfg" if quick else "MC_Faults.cfg", workers=12, heap=8, timeout=1800)
    states, trans = r["distinct"], r["generated"]
    mc.append(dict(cfg="MC_Faults", distinct=r["distinct"], generated=r["generated"], wall_s=round(r["wall"], 1)))
    # the current release's two non-atomic phases must show up as design-level counterexamples (they are the recorded findings)
    r = model_check(ctx, "MastFaults.tla", "MC_Faults_current.cfg", expect_ok=False, workers=4, heap=4, timeout=600)
    mc.append(dict(cfg="MC_Faults_current.cfg", expected="counterexample", found=r["error"]))
    # navigation under a failing Load (MastCursor.tla, RetrySafe): the repaired Forward / Backward pass, the behaviour before fix 6587a03 must fail
    r = model_check(ctx, "MastCursor.tla", "MC_Cursor_retry.cfg", workers=8, heap=6, timeout=900)
    states, trans = states + r["distinct"], trans + r["generated"]
    mc.append(dict(cfg="MC_Cursor_retry.cfg", distinct=r["distinct"], generated=r["generated"], wall_s=round(r["wall"], 1)))
    r = model_check(ctx, "MastCursor.tla", "MC_Cursor_retry_asis.cfg", expect_ok=False, workers=4, heap=4, timeout=600)
    mc.append(dict(cfg="MC_Cursor_retry_asis.cfg", expected="counterexample", found=r["error"]))
    drv = build_harness(ctx)
    viols, start, by_id, describe, stat, chunks = fault_runs(ctx, drv, "250" if quick else "3000", "8" if quick else "40", 4 if quick else 14)
    rc, nnew = report_violations(ctx, viols, start, by_id, describe)
    distinct = len(set((json.loads(c[0])["tree"], json.dumps(json.loads(c[0])["call"]), json.loads(c[0])["kind"], json.loads(c[0])["at"], json.loads(c[0])["at2"]) for c in chunks))
    nontrivial = stat.get("errs", 0) + stat.get("swallowed", 0)
    cov = dict(evaluations=len(chunks), distinct_nontrivial=min(distinct, nontrivial),
               rule="one evaluation = one operation (insert new/update/no-op, delete, get, iterate, seek, clone, cursor walk, diff) on one prepared tree "
                    "(persisted, partly dirty, in memory, emptied; cached or not) with one fallible call (or a pair of comparison calls) failing, followed by "
                    "the observation of the tree and the retry; positions come from a dry run that counts the calls; non-trivial = the fault was reached "
                    "and the call returned an error or swallowed it; distinct = distinct (tree, call, fault kind, position)",
               samples=[summary(json.loads(c[0])) for c in chunks[10:13]], exercised=stat,
               traces_validated_against_impl=len(chunks), exhaustive=False, states=states, transitions=trans, design_level=mc)
    write_evidence(ctx, "fault_enumeration", cov, ASSUME, nnew)
    log("  %d fault runs (%d distinct), %d returned an error, %d swallowed the fault, %d panicked (not judged), %d violations of C12" % (
        len(chunks), distinct, stat.get("errs", 0), stat.get("swallowed", 0), stat.get("panics", 0), nnew))
    return rc
