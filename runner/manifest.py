#!/usr/bin/env python3
"""Generates /verif/MANIFEST.json from the table below (kept here so that the
manifest is always valid and in step with the runner)."""
import json, os, subprocess

VERIF = os.path.dirname(os.path.dirname(os.path.abspath(__file__)))

MC = "model_checking"
CHECKS = {
    "C01": (MC, "7.C01", "TLC exhaustive run of Mast.tla (MapOK, ReadOnlyIsStutter: every history over the bounded key universe, every layer assignment) + TLC validation of recorded executions of the real code against TraceMast.tla",
            "exhaustive only within the TLA+ constants; histories of the real code are random (seeded) over key/value types, branch factors, formats and cache modes; harness codecs and decoders are trusted"),
    "C02": (MC, "7.C02", "TLC run of Mast.tla (Immutability) + every retained clone, cursor and persisted root re-observed after every later call of recorded executions, validated by TLC against TraceMast.tla",
            "value-level model; object-level sharing discipline is modelled in Cow.tla (C11); observation of retained roots uses a cache-less loader"),
    "C04": (MC, "7.C04", "TLC exhaustive run of Mast.tla (HeightOK, CanonOK against the independent Canon/RuleHeight) + every persisted root of recorded executions compared by TLC with the canonical tree of its model",
            "hash injectivity (name = decoded term); independent layer functions in the harness"),
    "C05": (MC, "7.C05", "TLC run of Mast.tla (RootsComplete, RootsFaithful) + persist/JSON round trip/load events of recorded executions validated by TLC against TraceMast.tla",
            "encodings that round-trip (JSON marshaler; registered-type marshalers are exercised by the format family)"),
    "C09": (MC, "7.C09", "TLC exhaustive run of Mast.tla (ShapeOK, written independently of Canon) + Shape evaluated by TLC on the decoded tree of every persisted root of recorded executions (also roots made by handles an earlier violation tainted, and versions persisted right after an operation failed under an injected fault)",
            "the harness's independent decoders of both node formats; one recorded finding (size after a failed Insert/grow) matched by its input class"),
    "C13": (MC, "7.C13", "TLC exhaustive run of Mast.tla (Incremental, CleanMeansUnchanged on the set a MakeRoot issued now would write) + recorded Store calls of every MakeRoot validated by TLC (reachability, no-op, range rule, 2*height+2 bound, IsDirty)",
            "ranges are closed (inclusive of bounding ancestor keys) and 'height unchanged' means at every step since the base version (DESIGN 5)"),
    "C16": (MC, "7.C16", "TLC exhaustive run of Mast.tla (PathReads on the residency-aware transcription) + Persist.Load calls of every recorded operation checked by TLC against the stated bounds, on small trees (TraceMast.tla) and on trees of 100-2600 entries probed on freshly opened handles (TracePath.tla)",
            "Load calls per API call are counted (the property's observation point); heights are the ones the code reports; no cache"),
    "C06": (MC, "7.C06", "TLC enumeration of every ordered pair of trees over the bounded universe on MastDiff.tla (EntryPrefix in every intermediate state of the stepwise machine, EntryDiffExact) + TLC validation of recorded DiffIter/StartDiff/NextEntry runs, early stops and callback failures against ModelDiff (TraceDiff.tla)",
            "the maps of a recorded pair come from the driver's bookkeeping; exhaustive only within the constants"),
    "C07": (MC, "7.C07", "TLC enumeration of every ordered pair on MastDiff.tla (LinksWithin, LinksComplete) + TLC validation of recorded DiffLinks callbacks against the reachable sets of the decoded versions, and a replica store filled with old + added nodes must load the new version",
            "hash injectivity; reachable sets come from the harness's independent decoders"),
    "C15": (MC, "7.C15", "TLC enumeration of every ordered pair on MastDiff.tla with load accounting (ReadBound, SameNoLoads) + distinct Load calls of recorded diffs of reloaded versions (small and large trees) checked by TLC against 2*D+2",
            "distinct node names are counted, no cache attached; D of large pairs is computed by the harness"),
    "C10": (MC, "7.C10", "TLC exhaustive run of MastCursor.tla (tree x start x every Forward/Backward sequence: Agrees, NoFailure; SeekOK for every probe of every layer) + TLC validation of recorded cursor walks and SeekIter runs against the sorted sequence (TraceCursor.tla)",
            "off-end is absorbing; the sorted sequence comes from the driver's bookkeeping"),
    "C03": (MC, "7.C03", "TLC exhaustive run of Flush.tla (main / dispatcher / workers / reader as separate actions: every interleaving, completion order, failure subset and retry within the constants; liveness under weak fairness); the same invariants derived from an inductive invariant with Apalache (FlushInd.tla: a fixed number of nodes, every gate size, failure budget, number of attempts, clean set, cache contents) and, in the thorough tier, proved inductive for every number of nodes with TLAPS (FlushProof.tla, 1429 obligations) + MakeRoot executions of the real code under a controlled Persist, schedules enumerated depth-first by re-execution, recorded and validated by TLC against TraceFlush.tla",
            "schedules act through the caller-supplied Persist and Marshal only; unrealisable decisions end a branch; exhaustive within the constants"),
    "C12": ("fault_enumeration", "7.C12", "enumeration on the real code of every fallible call position (Persist.Load, KeyCompare, Marshal, Unmarshal; pairs for comparison callbacks) of every operation on prepared trees; each run (result, tree observed through a fault-free view, retry) validated by TLC against TraceFaults.tla, whose normal outcomes come from the map model, ModelDiff and the walk oracle",
            "positions come from a dry run on an identically prepared tree; panics under a fault are counted, not judged; two recorded findings (Delete/shrink, Insert/grow) are matched by their input class"),
    "C17": ("fault_enumeration", "7.C17", "the real file.Persist.Store run in a child process whose write is cut at every byte offset (killed inside write(2) by RLIMIT_FSIZE, or failing with EFBIG), then load / re-store / load; the same for MakeRoot of whole trees over the file store (retried in the same process after the error, persisted again after restart, every reachable name compared with its bytes); every run validated by TLC against TraceFile.tla; design level: TLC exhaustive run of FileStore.tla (syscall granularity, crashes, I/O errors, concurrent writers); the same invariants for every set of writers, node length and number of faults by a TLAPS proof of an inductive invariant (FileStoreProof.tla)",
            "a crash is a process killed inside write(2); page-cache / fsync / directory-entry durability are assumptions of FileStore.tla"),
    "C18": (MC, "7.C18", "TLC exhaustive run of Store.tla (3 clients, begin/end steps, injected errors, S3 key mapping; the mis-mapped variants must fail); the same invariants for every set of names and clients by a TLAPS proof of an inductive invariant (StoreProof.tla) + recorded Store/Load/concurrent-writer runs on the in-memory, file and S3 backends validated by TLC against TraceStore.tla",
            "S3 is represented by a fake S3Interface recording bucket and key; file errors are injected through a missing base path"),
    "C08": (MC, "7.C08", "every Persist.Store call of every driven history validated by TLC against TraceC08.tla, which learns the relations name->bytes, node->bytes, bytes->node per configuration and requires them to stay functions; names recomputed by an independent BLAKE2b-256/base64url",
            "bytes are represented by their digest under the harness's independent implementation; the digest function itself is not transcribed into TLA+ (DESIGN 9)"),
    "C14": ("translation_validation", "7.C14", "Format.tla is the reference translation of nodes, keys and defaults to bytes, layers and order; TLC (TraceFormat.tla) compares it input by input with frozen vectors of the pinned release and with what the current code writes and returns for generated inputs",
            "default JSON marshaler for ints / plain ASCII strings / byte slices; integers below 2^31 in node bytes, larger magnitudes for layers via 8-byte limbs"),
    "C19": ("fault_enumeration", "7.C19", "enumerated perturbations of the root record, the loader configuration and the stored top node driven through the real LoadMast; TLC evaluates MustReject on every event (TraceLoad.tla, layers from Format.tla) and demands an error, not a panic or a tree",
            "structural decodability is judged by the harness's lenient decoders; nothing is demanded when MustReject does not hold"),
    "C11": ("exploration", "7.C11", "TLC exhaustive runs of Cow.tla (objects, flags, cache, clone, persist: SharedObjectsNeverWritten, UnsharedHasOneOwner, DirtyImpliesPrivate) and Flush.tla (PublishedObjectsAreFrozen, NoInPlaceEditOfPublished); TLC-generated programs (MastGen.tla) run by concurrent goroutines under the Go race detector over frozen lock-free and live shared caches, a steered publication window, and each goroutine's history validated by TLC against TraceMast.tla",
            "the race detector judges the executions that occur; harness synchronisation only where production code synchronises"),
}

NOT_YET = {
}

NA = [
    ("C03", "not yet built in this snapshot (Flush.tla planned, DESIGN 7.C03)"),
    ("C06", "not yet built in this snapshot (MastDiff.tla planned, DESIGN 7.C06)"),
    ("C07", "not yet built in this snapshot (MastDiff.tla planned, DESIGN 7.C07)"),
    ("C08", "not yet built in this snapshot (DESIGN 7.C08)"),
    ("C10", "not yet built in this snapshot (MastCursor.tla planned, DESIGN 7.C10)"),
    ("C11", "not yet built in this snapshot (Cow.tla planned, DESIGN 7.C11)"),
    ("C12", "not yet built in this snapshot (MastFaults.tla planned, DESIGN 7.C12)"),
    ("C14", "not yet built in this snapshot (Format.tla planned, DESIGN 7.C14)"),
    ("C15", "not yet built in this snapshot (MastDiff.tla planned, DESIGN 7.C15)"),
    ("C17", "not yet built in this snapshot (FileStore.tla planned, DESIGN 7.C17)"),
    ("C18", "not yet built in this snapshot (Store.tla planned, DESIGN 7.C18)"),
    ("C19", "not yet built in this snapshot (Load perturbation model planned, DESIGN 7.C19)"),
]


def main():
    checks = []
    for pid in sorted(CHECKS):
        cat, ref, text, note = CHECKS[pid]
        checks.append(dict(
            property_id=pid,
            quick_cmd="./check %s --tier quick" % pid,
            thorough_cmd="./check %s --tier thorough" % pid,
            evidence_file="/verif/evidence/%s.json" % pid,
            replay_cmd_template="cat {path}/violation.json",
            engine="tlc",
            level_claimed=dict(category=cat, text=text, design_ref=ref),
            level_note=note,
            technique="explicit TLA+ specification checked with TLC, bound to the code by TLC validation of recorded traces",
        ))
    try:
        commits = subprocess.run(["git", "-C", "/repo", "log", "--format=%H %s", "--grep=^verif:"], stdout=subprocess.PIPE, text=True).stdout.split("\n")
        commits = [c.split()[0] for c in commits if c.strip()]
    except Exception:
        commits = []
    m = dict(
        version=1,
        setup_cmd="./setup.sh",
        hooks=dict(guard="verif", enable="go build -tags verif (the harness module replaces github.com/jrhy/mast by /repo)",
                   baseline_off_cmd="cd /repo && go test -vet=off -count=1 ./...",
                   source_commits=commits, add_only=True),
        engines=[dict(name="tlc", path="/verif/check", serves_properties=sorted(CHECKS),
                      kind_free_text="TLC model checking of TLA+ specifications (specs/) + Go harness (harness/) driving the real library; "
                                     "TLC validates recorded traces and generates behaviours that are replayed on the code"),
                 dict(name="apalache", path="/usr/local/bin/apalache-mc", serves_properties=["C03", "C11"],
                      kind_free_text="inductive-invariant check of the flush protocol (specs/FlushInd.tla), run inside ./check C03; "
                                     "an obligation that does not finish is recorded and does not change the verdict"),
                 dict(name="tlapm", path="/usr/local/bin/tlapm", serves_properties=["C03", "C17", "C18"],
                      kind_free_text="TLAPS proofs of inductive invariants for every value of the constants (specs/FlushProof.tla in the "
                                     "thorough tier of C03, StoreProof.tla and FileStoreProof.tla in C17 / C18); recorded in the evidence, "
                                     "never changes a verdict")],
        checks=checks,
        not_applicable=[dict(property_id=p, reason=r) for p, r in NA if p not in CHECKS],
        notes="See DESIGN.md. Exit 2 of a check means the machinery could not decide (never reported as a violation).",
    )
    with open(os.path.join(VERIF, "MANIFEST.json"), "w") as f:
        json.dump(m, f, indent=1)
        f.write("\n")


if __name__ == "__main__":
    main()
