"""Family "load": C19 -- enumerated perturbations of root record, loader configuration and stored top node driven through the real
LoadMast; TLC evaluates MustReject (TraceLoad.tla, layers from Format.tla) on every event."""
import json, os, re
from common import *

PROPS = ["C19"]


def check(ctx):
    quick = ctx.quick()
    log("== C19 (%s, seed %d): MustReject => LoadMast returns an error" % (ctx.tier, ctx.seed))
    drv = build_harness(ctx)
    trace = os.path.join(ctx.scratch, "load.ndjson")
    run_driver(ctx, drv, ["load", "-seed", str(ctx.seed), "-n", "250" if quick else "4000", "-out", trace])
    lines = open(trace).read().splitlines(True)
    files, chunks, start, reports = validate_parallel(ctx, "TraceLoad.tla", "TraceLoad.cfg", trace, 4 if quick else 12,
                                                      is_start=lambda ln: True, ident=lambda ln: None)
    stat, viols = {}, []
    by_id, start2 = {}, {}
    n = 0
    for f, rep in zip(files, reports):
        for k, v in rep["stat"].items():
            stat[k] = stat.get(k, 0) + v
        fl = open(f).read().splitlines(True)
        for v in rep["viol"]:
            n += 1
            v["file"], v["tr"] = f, n
            by_id[n] = [fl[v["l"] - 1]]
            start2[(f, n)] = v["l"]
            viols.append(v)

    def summary(e):
        return "perturbation %s: format=%s bf=%d height=%d top node %d keys/%d values/%d links keys=%s -> %s %s" % (
            e["pert"], e["nf"], e["bf"], e["height"], e["nk"], e["nv"], e["nl"], e["keys"][:8], e["res"], re.sub(r"0x[0-9a-f]+", "", e["msg"])[:80])

    def describe(lines, upto, v):
        e = json.loads(lines[0])
        return summary(e), dict(event=e, validate_with="specs/TraceLoad.tla"), lines[0]

    rc, nnew = report_violations(ctx, viols, start2, by_id, describe)
    distinct = len(set((json.loads(l)["pert"], json.loads(l)["nf"], json.loads(l)["bf"], json.loads(l)["height"], json.dumps(json.loads(l)["keys"])) for l in lines))
    cov = dict(evaluations=len(lines), distinct_nontrivial=min(distinct, stat.get("mustreject", 0)),
               rule="one evaluation = LoadMast of one persisted root (both formats, branch factors 2-4, heights 0-3) under one perturbation: node format "
                    "bogus/swapped/empty, recorded height +1/+2/-1, other branch factor, reversed key order, link to a missing name, garbage bytes, "
                    "hand-encoded top nodes with more/fewer values or links, unordered keys (anywhere / first two), duplicate keys; non-trivial = MustReject holds",
               samples=[summary(json.loads(l)) for l in lines[4:7]], exercised=stat, traces_validated_against_impl=len(lines), exhaustive=False)
    write_evidence(ctx, "fault_enumeration", cov, ["'undecodable' is judged by the harness's lenient structural decoders under the format the loader is told",
                                                   "keys are integers; layers under the recorded branch factor come from Format.tla"], nnew)
    log("  %d loads, %d must be rejected (%s), %d rejected, %d accepted, %d violations of C19" % (
        len(lines), stat.get("mustreject", 0), ", ".join("%s %d" % (k, stat.get(k, 0)) for k in ("fmt", "missing", "undecodable", "counts", "order", "layers")),
        stat.get("rejected", 0), stat.get("accepted", 0), nnew))
    return rc
