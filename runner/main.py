import argparse, json, os, sys, traceback
from common import *
import fam_map, fam_diff, fam_cursor, fam_flush, fam_faults, fam_store, fam_format, fam_load, fam_race

FAMILIES = {}
FAMILIES.update({p: fam_map.check for p in fam_map.PROPS})
FAMILIES.update({p: fam_diff.check for p in fam_diff.PROPS})
FAMILIES.update({p: fam_cursor.check for p in fam_cursor.PROPS})
FAMILIES.update({p: fam_flush.check for p in fam_flush.PROPS})
FAMILIES.update({p: fam_faults.check for p in fam_faults.PROPS})
FAMILIES.update({p: fam_store.check for p in fam_store.PROPS})
FAMILIES.update({p: fam_format.check for p in fam_format.PROPS})
FAMILIES.update({p: fam_load.check for p in fam_load.PROPS})
FAMILIES.update({p: fam_race.check for p in fam_race.PROPS})


def main():
    ap = argparse.ArgumentParser()
    ap.add_argument("prop")
    ap.add_argument("--tier", default=os.environ.get("VERIF_TIER", "quick"), choices=["quick", "thorough"])
    ap.add_argument("--seed", type=int, default=int(os.environ.get("VERIF_SEED", "1") or 1))
    ap.add_argument("--keep", action="store_true")
    a = ap.parse_args()
    if a.prop not in FAMILIES:
        print("unknown property", a.prop)
        sys.exit(2)
    ctx = Ctx(a.prop, a.tier, a.seed, a.keep)
    rc = 2
    try:
        rc = FAMILIES[a.prop](ctx)
    except Undecided as e:
        log("UNDECIDED property=%s: %s" % (a.prop, e))
        rc = 2
    except Exception:
        traceback.print_exc()
        log("UNDECIDED property=%s: internal error of the runner" % a.prop)
        rc = 2
    finally:
        ctx.cleanup()
    sys.exit(rc)
