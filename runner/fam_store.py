"""Family "store": C18 (Store.tla + TraceStore.tla, three backends) and C17 (FileStore.tla + TraceFile.tla, crash enumeration)."""
import json, os
from common import *

PROPS = ["C17", "C18"]


def file_summary(e):
    if e["op"] == "ftree":
        return "tree of %d entries / %d nodes (largest %d bytes) persisted over the file store, node file cut at byte %d (%s): child %s, MakeRoot -> %s, again -> %s; reported root: %d missing, %d incomplete; %d misnamed files; after restart MakeRoot -> %s, same root %s, %d missing, %d incomplete" % (
            e["n"], e["nodes"], e["maxnode"], e["limit"], e["mode"], e["child"], e["res1"] or "-", e["res2"] or "-", e["missing"], e["corrupt"], e["partial"],
            e["restore"], e["sameroot"], e["missing2"], e["corrupt2"])
    return "node of %d bytes, write cut at byte %d (%s): child %s, load -> %s, re-store %s, load -> %s" % (
        e["len"], e["limit"], e["mode"], e["child"], "not found" if e["load1"] < 0 else "%d bytes" % e["load1"], e["restore"],
        "not found" if e["load2"] < 0 else "%d bytes" % e["load2"])


def collect(files, reports):
    stat, viols = {}, []
    for f, rep in zip(files, reports):
        for k, v in rep["stat"].items():
            stat[k] = stat.get(k, 0) + v
        for v in rep["viol"]:
            v["file"] = f
            viols.append(v)
    return stat, viols


def check(ctx):
    return check17(ctx) if ctx.prop == "C17" else check18(ctx)


def check18(ctx):
    quick = ctx.quick()
    log("== C18 (%s, seed %d): LoadReturnsExactBytes MissIsError ReadYourWrite ExactObjectKey" % (ctx.tier, ctx.seed))
    mc, states, trans = [], 0, 0
    for c in ["MC_Store_mem.cfg", "MC_Store_s3.cfg"]:
        r = model_check(ctx, "Store.tla", c, workers=8, heap=6, timeout=900)
        states += r["distinct"]; trans += r["generated"]
        mc.append(dict(cfg=c, distinct=r["distinct"], generated=r["generated"], wall_s=round(r["wall"], 1)))
    for c in ["MC_Store_s3_noprefix.cfg", "MC_Store_s3_bucket.cfg"]:
        r = model_check(ctx, "Store.tla", c, expect_ok=False, workers=2, heap=2, timeout=300)
        mc.append(dict(cfg=c, expected="counterexample", found=r["error"]))
    r = model_check(ctx, "FileStore.tla", "MC_File.cfg", workers=4, heap=4, timeout=600)
    states += r["distinct"]; trans += r["generated"]
    mc.append(dict(cfg="MC_File.cfg", distinct=r["distinct"], generated=r["generated"], note="the file backend's Store protocol refines the atomic Store of Store.tla"))
    # the contract for every set of names and clients and any number of injected errors: TLAPS proofs of inductive invariants
    for mod in ["StoreProof.tla", "FileStoreProof.tla"]:
        pr = run_tlapm(ctx, mod)
        mc.append(dict(module=mod, tool="tlapm", obligations_proved=pr[0], obligations_failed=pr[1], note="informative: recorded, does not change the verdict"))
    if not quick:
        pr = run_tlapm(ctx, "StoreProof.tla", subst=('Backend # "s3" \\/ KeyMapping = "exact"', 'Backend = "s3" /\\ KeyMapping = "noprefix"'), name="StoreProof-noprefix")
        mc.append(dict(module="StoreProof.tla with the key mapping without prefix", tool="tlapm", expected="failed obligations", obligations_failed=pr[1]))
    drv = build_harness(ctx)
    trace = os.path.join(ctx.scratch, "store.ndjson")
    run_driver(ctx, drv, ["store", "-seed", str(ctx.seed), "-n", "600" if quick else "9000", "-scratch", ctx.sub("files"), "-out", trace], timeout=3000)
    files, chunks, start, reports = validate_parallel(ctx, "TraceStore.tla", "TraceStore.cfg", trace, 4 if quick else 12,
                                                      is_start=lambda ln: ln.startswith('{"op":"sbegin"'), ident=lambda ln: json.loads(ln)["id"])
    stat, viols = collect(files, reports)
    by_id = {json.loads(c[0])["id"]: c for c in chunks}

    def brief(lines):
        out = []
        for ln in lines:
            e = json.loads(ln)
            out.append("%s[%s](n%d,len=%d%s)=%s" % (e["op"], e["backend"], e["name"], e["len"], ",inject" if e["inject"] else "", e["res"]))
        return out

    def describe(lines, upto, v):
        b = brief(lines[:upto])
        return " ".join(b[-6:]), dict(events=b, failing_event=json.loads(lines[upto - 1]), validate_with="specs/TraceStore.tla"), "".join(lines[:upto])

    rc, nnew = report_violations(ctx, viols, start, by_id, describe)
    # write errors of the file backend: the child-process runs of the crash family whose write fails with EFBIG
    ftrace = os.path.join(ctx.scratch, "file.ndjson")
    run_driver(ctx, drv, ["filecrash", "-seed", str(ctx.seed), "-n", "8" if quick else "60", "-scratch", ctx.sub("files2"), "-out", ftrace], timeout=3000)
    ffiles, fchunks, fstart, freports = validate_parallel(ctx, "TraceFile.tla", "TraceFile.cfg", ftrace, 2, is_start=lambda ln: True, ident=lambda ln: json.loads(ln)["id"] + 10000000)
    fstat, fviols = collect(ffiles, freports)
    for v in fviols:
        v["tr"] += 10000000
    fby = {json.loads(c[0])["id"] + 10000000: c for c in fchunks}
    rc2, nnew2 = report_violations(ctx, fviols, fstart, fby, lambda lines, upto, v: (file_summary(json.loads(lines[0])), dict(event=json.loads(lines[0])), lines[0]))
    rc, nnew = max(rc, rc2), nnew + nnew2
    stat["file_write_errors"] = fstat.get("ioerr", 0)
    cov = dict(states=states, transitions=trans, traces_validated_against_impl=len(chunks), samples=[brief(c)[:8] for c in chunks[:3]],
               exercised=stat, design_level=mc, exhaustive=False,
               rule="design level: every interleaving of 3 clients' Store/Load begin/end steps on 2 names with up to 2 injected errors, per backend mapping; "
                    "implementation level: random sequences of Store / Load / concurrent same-name writers on the in-memory, file and S3 (fake client) "
                    "backends, names over the node-name alphabet, payloads empty / binary / 1 MiB, injected backend errors")
    write_evidence(ctx, "model_checking", cov, ["the S3 service is represented by a fake S3Interface that records bucket and key",
                                                 "file-backend errors are injected through a base path that does not exist (the sandbox runs as root)"], nnew)
    log("  %d backend runs, %d stores, %d loads (%d of names never written), %d injected errors, %d violations of C18" % (
        len(chunks), stat.get("stores", 0), stat.get("loads", 0), stat.get("misses", 0), stat.get("injected", 0), nnew))
    return rc


def check17(ctx):
    quick = ctx.quick()
    log("== C17 (%s, seed %d): LoadIsCompleteOrMissing SuccessMeansComplete RestoreRepairs" % (ctx.tier, ctx.seed))
    mc = []
    r = model_check(ctx, "FileStore.tla", "MC_File.cfg", workers=4, heap=4, timeout=600)
    states, trans = r["distinct"], r["generated"]
    mc.append(dict(cfg="MC_File.cfg", distinct=r["distinct"], generated=r["generated"]))
    r = model_check(ctx, "FileStore.tla", "MC_File_direct.cfg", expect_ok=False, workers=2, heap=2, timeout=300)
    mc.append(dict(cfg="MC_File_direct.cfg", expected="counterexample", found=r["error"]))
    # the same three invariants for every set of writers, node length and number of faults: TLAPS proof of an inductive invariant
    pr = run_tlapm(ctx, "FileStoreProof.tla")
    mc.append(dict(module="FileStoreProof.tla", tool="tlapm", obligations_proved=pr[0], obligations_failed=pr[1],
                   note="informative: recorded, does not change the verdict"))
    if not quick:
        pr = run_tlapm(ctx, "FileStoreProof.tla", subst=('Protocol = "rename"', 'Protocol = "direct"'), name="FileStoreProof-direct")
        mc.append(dict(module="FileStoreProof.tla with Protocol = \"direct\"", tool="tlapm", expected="failed obligations", obligations_failed=pr[1]))
    drv = build_harness(ctx)
    trace = os.path.join(ctx.scratch, "file.ndjson")
    run_driver(ctx, drv, ["filecrash", "-seed", str(ctx.seed), "-n", "30" if quick else "400", "-scratch", ctx.sub("files"), "-out", trace], timeout=3000)
    files, chunks, start, reports = validate_parallel(ctx, "TraceFile.tla", "TraceFile.cfg", trace, 2 if quick else 8,
                                                      is_start=lambda ln: True, ident=lambda ln: json.loads(ln)["id"])
    stat, viols = collect(files, reports)
    if stat.get("broken", 0) > 0 and stat.get("killed", 0) == 0:
        raise Undecided("the child process could not be cut by RLIMIT_FSIZE in this environment")
    by_id = {json.loads(c[0])["id"]: c for c in chunks}

    summary = file_summary

    def describe(lines, upto, v):
        e = json.loads(lines[0])
        return summary(e), dict(event=e, validate_with="specs/TraceFile.tla"), lines[0]

    rc, nnew = report_violations(ctx, viols, start, by_id, describe)
    distinct = len(set((json.loads(c[0]).get("len", json.loads(c[0]).get("n")), json.loads(c[0])["limit"], json.loads(c[0])["mode"]) for c in chunks))
    cov = dict(evaluations=len(chunks), distinct_nontrivial=min(distinct, stat.get("killed", 0) + stat.get("ioerr", 0)),
               rule="one evaluation = the real file.Persist.Store of one node run in a child process with RLIMIT_FSIZE = N for N in 0..len (every offset "
                    "for nodes up to 64 bytes, ends and random offsets for larger ones), once killed inside the write (SIGXFSZ, default action) and once "
                    "with the write failing (EFBIG), followed by load, re-store and load in the parent; non-trivial = the child was killed or got the error; "
                    "plus the same at the level of a tree: MakeRoot of a tree (with and without node cache) over the file store cut at a byte of a node file, "
                    "retried by the same tree object once the error is gone, then persisted again by a new process; every reachable name checked against its bytes",
               samples=[summary(json.loads(c[0])) for c in chunks[3:6]], exercised=stat, states=states, transitions=trans, design_level=mc,
               traces_validated_against_impl=len(chunks), exhaustive=False)
    write_evidence(ctx, "fault_enumeration", cov, ["a crash is a process killed inside write(2); page-cache loss, reordering across fsync and directory-entry "
                                                   "durability are not reproducible here and are assumptions of FileStore.tla"], nnew)
    log("  %d cut-short tree persists (%d killed, %d failed with an I/O error, %d of those succeeded on the second attempt)" % (stat.get("trees", 0), stat.get("treekilled", 0), stat.get("treeerr", 0), stat.get("treeretried", 0)))
    log("  %d cut-short writes (%d killed, %d I/O errors, %d completed), %d violations of C17" % (len(chunks) - stat.get("trees", 0), stat.get("killed", 0), stat.get("ioerr", 0), stat.get("completed", 0), nnew))
    return rc
