"""Family "cursor": C10 decided on MastCursor.tla (every tree x start x walk;
SeekIter for every probe) and TraceCursor.tla (recorded walks and seeks)."""
import json, os
from common import *

PROPS = ["C10"]
ASSUME = [
    "the sorted sequence of a tree's entries comes from the driver's bookkeeping of the calls it made",
    "once a cursor has stepped off an end it stays without entry (the statement does not promise a way back)",
]


def summary(e):
    c = e["cfg"]
    return "tree #%d mode=%s bf=%d %s/%s %s height=%d entries=%s" % (e["id"], e["mode"], c["bf"], c["kt"], c["vt"], c["nf"], e["height"], e["ents"])


def check(ctx):
    quick = ctx.quick()
    log("== C10 (%s, seed %d): NoFailure, Agrees, SeekOK" % (ctx.tier, ctx.seed))
    mc, states, trans = [], 0, 0
    for c in (["MC_Cursor_q.cfg"] if quick else ["MC_Cursor.cfg"]):
        r = model_check(ctx, "MastCursor.tla", c, workers=12, heap=8, timeout=1800)
        states += r["distinct"]; trans += r["generated"]
        mc.append(dict(cfg=c, distinct=r["distinct"], generated=r["generated"], wall_s=round(r["wall"], 1)))
    for c in ["MC_Cursor_asis.cfg", "MC_Cursor_asis_seek.cfg"]:   # non-vacuity: the pinned release's behaviour must fail
        r = model_check(ctx, "MastCursor.tla", c, expect_ok=False, workers=4, heap=4, timeout=600)
        mc.append(dict(cfg=c, expected="counterexample", found=r["error"]))
    drv = build_harness(ctx)
    trace = os.path.join(ctx.scratch, "cursor.ndjson")
    n = 1500 if quick else 30000
    run_driver(ctx, drv, ["cursor", "-seed", str(ctx.seed), "-n", str(n), "-out", trace])
    files, chunks, start, reports = validate_parallel(ctx, "TraceCursor.tla", "TraceCursor.cfg", trace, 4 if quick else 14,
                                                      is_start=lambda ln: True, ident=lambda ln: json.loads(ln)["id"])
    stat, viols = {}, []
    for f, rep in zip(files, reports):
        for k, v in rep["stat"].items():
            stat[k] = max(stat.get(k, 0), v) if k == "maxheight" else stat.get(k, 0) + v
        for v in rep["viol"]:
            v["file"] = f
            viols.append(v)
    by_id = {json.loads(c[0])["id"]: c for c in chunks}

    def describe(lines, upto, v):
        e = json.loads(lines[0])
        return summary(e), dict(event=e, validate_with="specs/TraceCursor.tla"), lines[0]

    rc, nnew = report_violations(ctx, viols, start, by_id, describe)
    e1 = json.loads(chunks[0][0])
    samples = [dict(tree=summary(e1), walk=e1["walks"][0], seek=e1["seeks"][0] if e1["seeks"] else None)]
    distinct = len(set((json.dumps(json.loads(c[0])["ents"]), json.dumps(json.loads(c[0])["cfg"]["layers"]), json.loads(c[0])["mode"]) for c in chunks))
    cov = dict(states=states, transitions=trans, traces_validated_against_impl=len(chunks), samples=samples, distinct_trees=distinct,
               exercised=stat, design_level=mc, exhaustive=False,
               rule="design level: every tree (contents x layers x height x both empty forms) x every start (Min, Max, Ceil of every probe) x every "
                    "Forward/Backward sequence, SeekIter for every probe; implementation level: trees built by real histories (memory/persisted/"
                    "dirty/fresh/emptied), 6 random walks and a SeekIter per key of the universe each, validated by TLC")
    write_evidence(ctx, "model_checking", cov, ASSUME, nnew)
    log("  %d trees (%d distinct), %d walks, %d seeks, %d violations of C10" % (len(chunks), distinct, stat.get("walks", 0), stat.get("seeks", 0), nnew))
    return rc
