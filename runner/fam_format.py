"""Family "format": C14 (Format.tla as the reference translation; TraceFormat.tla on frozen vectors and on the current code's output)
and C08 (TraceC08.tla over every Persist.Store call of driven histories)."""
import json, os
from common import *

PROPS = ["C08", "C14"]


def check(ctx):
    return check14(ctx) if ctx.prop == "C14" else check08(ctx)


def check14(ctx):
    quick = ctx.quick()
    log("== C14 (%s, seed %d): Format.tla (Encode, KeyLayer, KeyCmp, defaults) vs frozen vectors and vs the code" % (ctx.tier, ctx.seed))
    vec = os.path.join(VERIF, "vectors", "format.ndjson")
    # (i) the frozen vectors pin the specification
    rep = validate_trace(ctx, "TraceFormat.tla", "TraceFormat.cfg", vec, name="vectors")
    if rep["viol"]:
        raise Undecided("Format.tla disagrees with the frozen reference vectors at %d events (first: %s): the specification was changed, not the code"
                        % (len(rep["viol"]), rep["viol"][0]))
    log("  frozen vectors: %d events reproduced by Format.tla" % rep["events"])
    vstat = rep["stat"]
    # (ii) the current code's output pins the code
    drv = build_harness(ctx)
    trace = os.path.join(ctx.scratch, "format.ndjson")
    run_driver(ctx, drv, ["format", "-seed", str(ctx.seed), "-n", "96" if quick else "1500", "-out", trace])
    # and the code must still reproduce the frozen inputs: re-run the vector generator and compare as sets
    again = os.path.join(ctx.scratch, "vectors_again.ndjson")
    run_driver(ctx, drv, ["format", "-seed", "424242", "-n", "48", "-out", again])
    frozen = set(open(vec).read().splitlines())
    now = set(open(again).read().splitlines())
    files, chunks, start, reports = validate_parallel(ctx, "TraceFormat.tla", "TraceFormat.cfg", trace, 4 if quick else 12,
                                                      is_start=lambda ln: True, ident=lambda ln: None)
    # identify events by their line number inside the part file
    stat, viols = {}, []
    for f, rep in zip(files, reports):
        for k, v in rep["stat"].items():
            stat[k] = max(stat.get(k, 0), v) if k == "maxlayer" else stat.get(k, 0) + v
        lines = open(f).read().splitlines(True)
        for v in rep["viol"]:
            v["file"] = f
            v["tr"] = (f, v["l"])
            v["line"] = lines[v["l"] - 1]
            viols.append(v)
    by_id = {v["tr"]: [v["line"]] for v in viols}
    start2 = {(v["file"], v["tr"]): v["l"] for v in viols}
    # a vector the current code no longer reproduces is a violation too
    for i, ln in enumerate(sorted(frozen - now)[:50]):
        key = ("vectors", i)
        viols.append(dict(p="C14", l=1, tr=key, why="a frozen reference vector is no longer reproduced by the code", h=0, file="vectors", line=ln + "\n"))
        by_id[key] = [ln + "\n"]
        start2[("vectors", key)] = 1

    def describe(lines, upto, v):
        e = json.loads(lines[0])
        brief = {k: e[k] for k in ("op", "nf", "kt", "got", "vt", "bf", "keys", "vals", "key", "layer", "a", "b", "cmp") if k in e}
        return json.dumps(brief)[:300], dict(event=e, validate_with="specs/TraceFormat.tla"), lines[0]

    class TrKey(str):
        pass
    # report_violations formats the id with %d: give it printable ids
    for n, v in enumerate(viols):
        v["tr_key"] = v["tr"]
    ids = {}
    for v in viols:
        ids.setdefault(v["tr_key"], len(ids) + 1)
    by_id2 = {ids[k]: by_id[k] for k in by_id}
    start3 = {}
    for v in viols:
        start3[(v["file"], ids[v["tr_key"]])] = v["l"]
        v["tr"] = ids[v["tr_key"]]
    rc, nnew = report_violations(ctx, viols, start3, by_id2, describe)
    n_events = sum(1 for _ in open(trace))
    samples = [json.loads(ln) for ln in open(trace).read().splitlines()[2:4]]
    for s in samples:
        s["bytes"] = s["bytes"][:40]
    cov = dict(programs=n_events + len(frozen), disagreements_checked=n_events + len(frozen), samples=samples,
               exercised=stat, vectors=dict(events=len(frozen), reproduced_by_spec=len(frozen), reproduced_by_code=len(frozen & now), stat=vstat),
               rule="one program = one input (a node with its entries and child names; a key and a branch factor; a pair of keys; NewRoot) translated by "
                    "Format.tla and by the code; TLC compares byte for byte; generated inputs cover both node formats x key types int/int64/uint/uint64/"
                    "string/[]byte x value types x branch factors 2,3,4,10,16,256, leaves and inner nodes with nil/non-nil link patterns")
    write_evidence(ctx, "translation_validation", cov, ["value encodings are those of the default JSON marshaler for ints, plain ASCII strings and byte slices",
                                                         "BLAKE2b-256/base64url are recomputed by the harness's independent implementation, not transcribed into TLA+",
                                                         "integers in node bytes are below 2^31 (TLC); layers of larger magnitudes are checked on 8-byte limbs"], nnew)
    log("  %d generated inputs + %d frozen vectors (%d still reproduced by the code), %d violations of C14" % (n_events, len(frozen), len(frozen & now), nnew))
    return rc


def check08(ctx):
    quick = ctx.quick()
    log("== C08 (%s, seed %d): write-once names, name = digest(bytes), bytes a function of entries and child names" % (ctx.tier, ctx.seed))
    drv = build_harness(ctx)
    trace = os.path.join(ctx.scratch, "map.ndjson")
    stores = os.path.join(ctx.scratch, "stores.ndjson")
    run_driver(ctx, drv, ["map", "-seed", str(ctx.seed), "-n", "1500" if quick else "30000", "-steps", "40", "-profile", "c08", "-out", trace, "-stores", stores], timeout=3000)
    # ... and the directed three-level shapes (separators removed and re-inserted next to key-less middle nodes), whose Store calls
    # are dumped the same way
    shapes, stores2, empty = os.path.join(ctx.scratch, "shapes.ndjson"), os.path.join(ctx.scratch, "stores2.ndjson"), os.path.join(ctx.scratch, "empty.ndjson")
    open(empty, "w").close()
    run_driver(ctx, drv, ["trans-map", "-profile", "follow", "-seed", str(ctx.seed), "-n", "600" if quick else "12000", "-in", empty, "-out", shapes, "-stores", stores2], timeout=3000)
    with open(stores, "a") as f:
        f.write(open(stores2).read())
    ev = [json.loads(l) for l in open(stores)]
    ev.sort(key=lambda e: e["ns"])
    srt = os.path.join(ctx.scratch, "stores_sorted.ndjson")
    with open(srt, "w") as f:
        for e in ev:
            f.write(json.dumps(e) + "\n")
    state = {"ns": None}

    def is_start(ln):
        ns = json.loads(ln)["ns"]
        new = ns != state["ns"]
        state["ns"] = ns
        return new
    nsid = {}

    def ident(ln):
        return nsid.setdefault(json.loads(ln)["ns"], len(nsid) + 1)
    files, chunks, start, reports = validate_parallel(ctx, "TraceC08.tla", "TraceC08.cfg", srt, 4 if quick else 12, is_start=is_start, ident=ident)
    stat, viols = {}, []
    for f, rep in zip(files, reports):
        for k, v in rep["stat"].items():
            stat[k] = stat.get(k, 0) + v
        lines = open(f).read().splitlines()
        for v in rep["viol"]:
            v["file"] = f
            v["tr"] = nsid[json.loads(lines[v["l"] - 1])["ns"]]
            viols.append(v)
    by_id = {nsid[json.loads(c[0])["ns"]]: c for c in chunks}

    def describe(lines, upto, v):
        e = json.loads(lines[upto - 1])
        return "%s node=%s name=%s" % (e["ns"][:60], e["node"], e["name"]), dict(event=e, validate_with="specs/TraceC08.tla"), "".join(lines[:upto])

    rc, nnew = report_violations(ctx, viols, start, by_id, describe)
    # the consequence for whole versions (one root name, one contents) is judged on the same histories by TraceMast.tla
    mfiles, mchunks, mstart, mreports = validate_parallel(ctx, "TraceMast.tla", "TraceMast.cfg", trace, 4 if quick else 12)
    mviols = []
    for f, rep in zip(mfiles, mreports):
        for v in rep["viol"]:
            v["file"] = f
            mviols.append(v)
    mby = {json.loads(c[0])["cfg"]["id"]: c for c in mchunks}
    rc2, nnew2 = report_violations(ctx, mviols, mstart, mby, lambda lines, upto, v: (
        "history #%d, %d events" % (v["tr"], upto), dict(validate_with="specs/TraceMast.tla"), "".join(lines[:upto])), quiet_unexercised=True)
    rc, nnew = max(rc, rc2), nnew + nnew2
    cov = dict(states=stat.get("events", 0) + 1, transitions=stat.get("events", 0), traces_validated_against_impl=len(chunks),
               samples=[json.loads(chunks[0][0])], exercised=stat, exhaustive=False,
               rule="every Persist.Store call of every driven history (1500/30000 random histories with clones, reloads, caches, both formats, 6 key types), "
                    "grouped by configuration; TLC keeps the learned relations name->bytes, node->bytes, bytes->node and checks that they stay functions")
    write_evidence(ctx, "model_checking", cov, ["bytes are represented by their digest under the harness's independent BLAKE2b-256 implementation",
                                                "the abstract node (entries, child names) is decoded from the written bytes by the harness's own decoders"], nnew)
    log("  %d Store calls in %d configurations, %d distinct nodes, %d re-encodings of an already seen node, %d violations of C08" % (
        stat.get("events", 0), len(chunks), stat.get("distinct_nodes", 0), stat.get("same_node_again", 0), nnew))
    return rc
