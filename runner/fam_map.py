"""Family "map": C01 C02 C04 C05 C09 C13 C16 decided on Mast.tla (design level)
and TraceMast.tla (recorded executions of the real code)."""
import hashlib, json, os
from concurrent.futures import ThreadPoolExecutor
from common import *

PROPS = ["C01", "C02", "C04", "C05", "C09", "C13", "C16"]

LEVEL = "model_checking"

DESIGN = {
    # property -> which invariants/properties of Mast.tla state it (all are checked by every MC_Core run)
    "C01": "MapOK, ReadOnlyIsStutter",
    "C02": "Immutability (value level); mechanism level in Cow.tla",
    "C04": "HeightOK, CanonOK",
    "C05": "RootsComplete, RootsFaithful",
    "C09": "ShapeOK",
    "C13": "Incremental, CleanMeansUnchanged",
    "C16": "PathReads",
}

# emphasis of the random driver per property
PROFILE = {
    "C01": "general", "C02": "versions", "C04": "general", "C05": "reload", "C09": "general",
    "C13": "batches", "C16": "nocache",
}

ASSUME = [
    "BLAKE2b-256 is treated as injective: a node's name stands for its decoded content term (checked separately by C08)",
    "keys are ranks mapped monotonically to concrete keys by the harness codec; layers are recomputed independently of the library",
    "design-level runs are exhaustive only within the stated constants",
]


def op_summary(lines):
    """Abstract view of one history, for samples and for counting distinct histories."""
    ops = []
    cfg = None
    for ln in lines:
        e = json.loads(ln)
        if e["op"] == "reset":
            c = e["cfg"]
            cfg = "bf=%d %s/%s %s cache=%s layers=%s" % (c["bf"], c["kt"], c["vt"], c["nf"], c["cache"], c["layers"])
            continue
        s = e["op"]
        if s in ("ins", "del"):
            s += "(h%d,k%d,v%d)" % (e["h"], e["k"], e["v"])
        elif s in ("get",):
            s += "(h%d,k%d)" % (e["h"], e["k"])
        elif s in ("clone", "cursor"):
            s += "(h%d->h%d)" % (e["h"], e["g"])
        elif s == "load":
            s += "(r%d->h%d%s)" % (e["r"], e["g"], ",json" if e["json"] else "")
        elif s == "cwalk":
            s += "(h%d)" % e["g"]
        else:
            s += "(h%d)" % e["h"]
        if e["res"] != "ok":
            s += "!" + e["res"]
        ops.append(s)
    return cfg, ops


def check(ctx):
    prop = ctx.prop
    quick = ctx.quick()
    log("== %s (%s, seed %d): %s" % (prop, ctx.tier, ctx.seed, DESIGN[prop]))

    # 1. design level
    states = trans = 0
    mc = []
    cfgs = ["MC_Core_q.cfg"] if quick else ["MC_Core.cfg", "MC_Versions.cfg"]
    for c in cfgs:
        r = model_check(ctx, "Mast.tla", c, workers=12, heap=8, timeout=1500)
        states += r["distinct"]
        trans += r["generated"]
        mc.append(dict(cfg=c, distinct=r["distinct"], generated=r["generated"], wall_s=round(r["wall"], 1)))
    if prop == "C04":
        # non-vacuity: with the pinned release's shrink rule the height property must fail
        r = model_check(ctx, "Mast.tla", "MC_Core_asis.cfg", expect_ok=False, workers=8, heap=4, timeout=600)
        mc.append(dict(cfg="MC_Core_asis.cfg", expected="counterexample", found=r["error"]))

    # 2. drive the real code
    drv = build_harness(ctx)
    trace = os.path.join(ctx.scratch, "map.ndjson")
    n = 400 if quick else 8000
    steps = 40 if quick else 50
    run_driver(ctx, drv, ["map", "-seed", str(ctx.seed), "-n", str(n), "-steps", str(steps), "-profile", PROFILE[prop], "-out", trace])

    # 3. validate against the trace specification
    files, chunks, start, reports = validate_parallel(ctx, "TraceMast.tla", "TraceMast.cfg", trace, 4 if quick else 14)
    stat = {}
    viols = []
    for f, rep in zip(files, reports):
        for k, v in rep["stat"].items():
            stat[k] = max(stat.get(k, 0), v) if k == "maxheight" else stat.get(k, 0) + v
        for v in rep["viol"]:
            v["file"] = f
            viols.append(v)
    by_id = {json.loads(c[0])["cfg"]["id"]: c for c in chunks}

    def describe(lines, upto, v):
        cfg, ops = op_summary(lines)
        info = dict(handle=v["h"], config=cfg, ops=ops[:max(0, upto - 1)],
                    failing_event=json.loads(lines[upto - 1]) if 0 < upto <= len(lines) else None,
                    validate_with="specs/TraceMast.tla")
        return "[%s]  after %s" % (cfg, " ".join(ops[max(0, upto - 9):max(0, upto - 1)])), info, "".join(lines[:upto])

    rc, nnew = report_violations(ctx, viols, start, by_id, describe)

    # 5. evidence
    distinct = len(set(hashlib.sha1("".join(c[1:]).encode()).hexdigest() for c in chunks))
    samples = []
    for c in chunks[:2]:
        cfg, ops = op_summary(c)
        samples.append(dict(config=cfg, ops=ops))
    relevant = dict(C01="ins upd noop del nodel get iter", C02="clone cursor cwalk robs load", C04="root shrink grow",
                    C05="load root", C09="root", C13="root rootdirty wexact wless", C16="ldexact ldother get ins del load clone")
    cov = dict(states=states, transitions=trans, traces_validated_against_impl=len(chunks),
               samples=samples, distinct_histories=distinct, events_validated=stat.get("events", 0),
               events_skipped_after_a_violation=stat.get("skipped", 0),
               exercised={k: stat.get(k, 0) for k in relevant[prop].split()},
               max_height_reached=stat.get("maxheight", 0),
               design_level=mc, exhaustive=False,
               rule="design level: every reachable state of the listed configurations; implementation level: random histories "
                    "(profile %s) over key/value codecs x branch factors x node formats x cache modes, every event validated by TLC" % PROFILE[prop])
    write_evidence(ctx, LEVEL, cov, ASSUME, nnew)
    log("  %d histories (%d distinct), %d events validated, %d violations of %s" % (len(chunks), distinct, stat.get("events", 0), nnew, prop))
    return rc
