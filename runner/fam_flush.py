"""Family "flush": C03 decided on Flush.tla (every interleaving of main, dispatcher, workers, failures, retries within the
constants) and TraceFlush.tla (MakeRoot executions recorded under a controlled Persist, schedules enumerated depth-first)."""
import json, os
from common import *

PROPS = ["C03"]
ASSUME = [
    "schedules are applied through the user-supplied Persist and Marshal, which the library calls on its own goroutines; "
    "a decision that cannot be applied within a bounded wait ends that branch (never a violation)",
    "the harness orders events by a sequence number taken under one mutex inside Store/Marshal and right after MakeRoot returns",
    "design-level runs are exhaustive only within the constants (N nodes, GateSize, MaxFailures, MaxAttempts)",
]


def inductive(ctx, quick):
    """FlushInd.tla: the C03 / C11 invariants of Flush.tla follow from an inductive invariant, for a fixed number of nodes and every
    gate size, failure budget, number of attempts, clean set and foreign cache contents (Apalache). A counterexample to one of the
    obligations is a defect of the specification (exit 2); an obligation Apalache does not finish is only recorded."""
    obligations = [("Init", "IndInv", 0), ("IndInit", "IndInv", 1), ("IndInit", "Props", 0)]
    res = dict(module="FlushInd.tla", tool="apalache", obligations=[], non_vacuity=[])
    import concurrent.futures
    jobs = [(c, i, v, n, True) for c in (["ConstInit"] if quick else ["ConstInit", "ConstInitBig"]) for (i, v, n) in obligations]
    jobs += [(c, "IndInit", "IndInv", 1, False) for c in ["ConstInitAsis", "ConstInitNoPrefix", "ConstInitEarly"]]
    with concurrent.futures.ThreadPoolExecutor(3) as ex:
        outs = list(ex.map(lambda j: run_apalache(ctx, "FlushInd.tla", j[0], j[1], j[2], j[3], timeout=600 if quick else 2400), jobs))
    for (c, i, v, n, want_ok), (r, out) in zip(jobs, outs):
        (res["obligations"] if want_ok else res["non_vacuity"]).append(dict(cinit=c, init=i, inv=v, length=n, outcome=r))
        if want_ok and r == "error":
            raise Undecided("inductive invariant FlushInd.tla: obligation %s /\\ [Next]^%d => %s has a counterexample (%s)\n%s" % (i, n, v, c, out[-2000:]))
        if not want_ok and r == "ok":
            raise Undecided("non-vacuity: the deviation %s was expected to break the induction of FlushInd.tla and did not" % c)
    if not quick:
        # ... and for EVERY number of nodes: the TLAPS proof that IndInv is inductive and implies the invariants (informative, see run_tlapm)
        pr = run_tlapm(ctx, "FlushProof.tla", timeout=3000)
        res["tlaps"] = dict(module="FlushProof.tla", obligations_proved=pr[0], obligations_failed=pr[1])
    return res


def check(ctx):
    quick = ctx.quick()
    log("== C03 (%s, seed %d): SuccessImpliesAllReachableStored NoWriteInFlightAtReturn ErrorsSurface FailureLeavesTreeUsable NoSkipAcrossStores Termination" % (ctx.tier, ctx.seed))
    mc, states, trans = [], 0, 0
    for c in (["MC_Flush_q.cfg", "MC_Flush_clean.cfg"] if quick else ["MC_Flush.cfg", "MC_Flush_clean.cfg", "MC_Flush_big.cfg"]):
        r = model_check(ctx, "Flush.tla", c, workers=12, heap=8, timeout=2400)
        states += r["distinct"]; trans += r["generated"]
        mc.append(dict(cfg=c, distinct=r["distinct"], generated=r["generated"], wall_s=round(r["wall"], 1)))
    for c in ["MC_Flush_asis.cfg", "MC_Flush_noprefix.cfg", "MC_Flush_early.cfg"]:   # non-vacuity
        r = model_check(ctx, "Flush.tla", c, expect_ok=False, workers=4, heap=4, timeout=600)
        mc.append(dict(cfg=c, expected="counterexample", found=r["error"]))
    mc.append(inductive(ctx, quick))
    drv = build_harness(ctx)
    trace = os.path.join(ctx.scratch, "flush.ndjson")
    # the driver paces real goroutines (it mostly waits): the cases are split over several driver processes
    parts = 6 if quick else 12
    import concurrent.futures
    def one(i):
        run_driver(ctx, drv, ["flush", "-seed", str(ctx.seed), "-n", "12" if quick else "150", "-budget", "6000" if quick else "60000",
                              "-scen", "24" if quick else "60", "-part", str(i), "-parts", str(parts), "-out", trace + ".%d" % i],
                   timeout=900 if quick else 3000)
    with concurrent.futures.ThreadPoolExecutor(parts) as ex:
        list(ex.map(one, range(parts)))
    with open(trace, "w") as f:
        for i in range(parts):
            f.write(open(trace + ".%d" % i).read())
    files, chunks, start, reports = validate_parallel(ctx, "TraceFlush.tla", "TraceFlush.cfg", trace, 4 if quick else 14,
                                                      is_start=lambda ln: ln.startswith('{"op":"fbegin"'), ident=lambda ln: json.loads(ln)["id"])
    stat, viols = {}, []
    for f, rep in zip(files, reports):
        for k, v in rep["stat"].items():
            stat[k] = max(stat.get(k, 0), v) if k == "maxinflight" else stat.get(k, 0) + v
        for v in rep["viol"]:
            v["file"] = f
            viols.append(v)
    by_id = {json.loads(c[0])["id"]: c for c in chunks}

    def brief(lines):
        out = []
        for ln in lines:
            e = json.loads(ln)
            if e["op"] in ("mk", "ss"):
                out.append("%s(%s)" % (e["op"], e["n"][:6]))
            elif e["op"] == "se":
                out.append("se(%s,%s)" % (e["n"][:6], "ok" if e["ok"] else "ERR"))
            elif e["op"] == "ret":
                out.append("ret(%s,missing=%d,inflight=%d)" % (e["res"], e["missing"], e["inflight"]))
            elif e["op"] == "fbegin":
                out.append("begin[%s sched=%s]" % (e["kind"], ",".join(e["sched"])))
            else:
                out.append(e["op"])
        return out

    def describe(lines, upto, v):
        b = brief(lines[:upto])
        return " ".join(b[-14:]), dict(events=b, failing_event=json.loads(lines[upto - 1]), validate_with="specs/TraceFlush.tla"), "".join(lines[:upto])

    rc, nnew = report_violations(ctx, viols, start, by_id, describe)
    distinct = len(set(" ".join(brief(c)) for c in chunks))
    cov = dict(states=states, transitions=trans, traces_validated_against_impl=len(chunks), samples=[brief(c) for c in chunks[3:5]],
               distinct_executions=distinct, exercised=stat, design_level=mc, exhaustive=False,
               rule="design level: every interleaving of main/dispatcher/workers/reader with every failure subset and retry within the constants; "
                    "implementation level: depth-first enumeration of schedules (advance main by one node / complete the i-th in-flight write "
                    "successfully / with an error) on small scenarios by re-execution, random schedules on trees with more than 40 dirty nodes, "
                    "a cache shared by two stores, and retries after every failure; distinct = distinct event sequences")
    write_evidence(ctx, "model_checking", cov, ASSUME, nnew)
    log("  %d executions (%d distinct event sequences), %d writes, %d injected failures, max %d in flight, %d violations of C03" % (
        len(chunks), distinct, stat.get("stores", 0), stat.get("failures", 0), stat.get("maxinflight", 0), nnew))
    return rc
