"""Family "diff": C06 C07 C15 decided on MastDiff.tla (every ordered pair of
trees over the bounded universe) and TraceDiff.tla (recorded diff runs)."""
import json, os
from common import *

PROPS = ["C06", "C07", "C15"]
DESIGN = {
    "C06": "EntryPrefix, EntryDiffExact (every intermediate state: what was reported is a prefix of the exact difference)",
    "C07": "LinksWithin, LinksComplete",
    "C15": "ReadBound, SameNoLoads",
}
ASSUME = [
    "BLAKE2b-256 treated as injective: node names stand for decoded content terms",
    "the two maps of a pair come from the driver's own bookkeeping of the calls it made, not from the library",
    "large pairs (hundreds of nodes) are judged on names and counts in the harness; TLC checks the bounds on the logged numbers",
]


def summary(e):
    c = e["cfg"]
    return "pair #%d mode=%s resid=%s stores=%s%s bf=%d %s/%s %s nk=%d old=%s new=%s" % (
        e["id"], e["mode"], e["resid"], e.get("stores", "one"), " +cache" if e.get("dcache") else "", c["bf"], c["kt"], c["vt"], c["nf"], c["nk"],
        e["mo"] if e["hasold"] else "nil", e["mn"])


def check(ctx):
    prop, quick = ctx.prop, ctx.quick()
    log("== %s (%s, seed %d): %s" % (prop, ctx.tier, ctx.seed, DESIGN[prop]))
    mc = []
    states = trans = 0
    cfgs = ["MC_Diff_step.cfg", "MC_Diff_q.cfg"] if quick else ["MC_Diff_step.cfg", "MC_Diff_q.cfg", "MC_Diff.cfg"]
    for c in cfgs:
        r = model_check(ctx, "MastDiff.tla", c, workers=14, heap=10, timeout=2400)
        states += r["distinct"]
        trans += r["generated"]
        mc.append(dict(cfg=c, distinct=r["distinct"], generated=r["generated"], wall_s=round(r["wall"], 1)))
    if prop == "C07":
        # the duplicate check under a store that fails once (fix e203d09): the repaired walk passes for every pair and every position of
        # the failure, the behaviour before the fix (the error swallowed, the link forgotten) must report a node twice
        r = model_check(ctx, "MastDiff.tla", "MC_Diff_glitch.cfg", workers=14, heap=10, timeout=1800)
        states += r["distinct"]
        trans += r["generated"]
        mc.append(dict(cfg="MC_Diff_glitch.cfg", distinct=r["distinct"], generated=r["generated"], wall_s=round(r["wall"], 1)))
        r = model_check(ctx, "MastDiff.tla", "MC_Diff_glitch_asis.cfg", expect_ok=False, workers=8, heap=8, timeout=900)
        mc.append(dict(cfg="MC_Diff_glitch_asis.cfg", expected="counterexample", found=r["error"]))
    if prop == "C06":
        r = model_check(ctx, "MastDiff.tla", "MC_Diff_asis.cfg", expect_ok=False, workers=4, heap=4, timeout=600)
        mc.append(dict(cfg="MC_Diff_asis.cfg", expected="counterexample", found=r["error"]))

    drv = build_harness(ctx)
    trace = os.path.join(ctx.scratch, "diff.ndjson")
    n = 1500 if quick else 30000
    run_driver(ctx, drv, ["diff", "-seed", str(ctx.seed), "-n", str(n), "-big", ("8" if prop == "C15" else "40") if quick else ("6" if prop == "C15" else "25"), "-out", trace])
    files, chunks, start, reports = validate_parallel(ctx, "TraceDiff.tla", "TraceDiff.cfg", trace, 4 if quick else 14,
                                                      is_start=lambda ln: True, ident=lambda ln: json.loads(ln)["id"])
    stat, viols = {}, []
    for f, rep in zip(files, reports):
        for k, v in rep["stat"].items():
            stat[k] = max(stat.get(k, 0), v) if k == "maxd" else stat.get(k, 0) + v
        for v in rep["viol"]:
            v["file"] = f
            viols.append(v)
    by_id = {json.loads(c[0])["id"]: c for c in chunks}

    def describe(lines, upto, v):
        e = json.loads(lines[0])
        return summary(e), dict(event=e, validate_with="specs/TraceDiff.tla"), lines[0]

    rc, nnew = report_violations(ctx, viols, start, by_id, describe)
    samples = [summary(json.loads(c[0])) for c in chunks[1:4]]
    distinct = len(set((json.dumps(json.loads(c[0])["mo"]), json.dumps(json.loads(c[0])["mn"]), json.loads(c[0])["mode"],
                        json.dumps(json.loads(c[0])["cfg"]["layers"])) for c in chunks))
    cov = dict(states=states, transitions=trans, traces_validated_against_impl=len(chunks), samples=samples,
               distinct_pairs=distinct, exercised=stat, design_level=mc, exhaustive=False,
               rule="design level: every ordered pair of trees (contents x layer assignment x heights x nil old x pointer/name equality) "
                    "of the listed configurations; implementation level: pairs built by real histories in the modes lineage/siblings/"
                    "unrelated/emptied/fresh/nil-old/same, persisted, in memory or mixed, small (full terms checked by TLC) and large")
    write_evidence(ctx, "model_checking", cov, ASSUME, nnew)
    log("  %d pairs (%d distinct), %d violations of %s" % (len(chunks), distinct, nnew, prop))
    return rc
