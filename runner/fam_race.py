"""Family "race": C11 -- Cow.tla / Flush.tla at the design level; TLC-generated programs run by concurrent goroutines under the Go race
detector (frozen lock-free sharing, live ARC cache, steered publication window); each goroutine's history validated by TraceMast."""
import glob, json, os, re, subprocess
from common import *

PROPS = ["C11"]
ASSUME = [
    "the race detector judges the executions that occur; TLC supplies the programs (behaviours of MastGen.tla split per handle) and the design-level "
    "interleavings (Cow.tla, Flush.tla), not instruction-level schedules of the real code",
    "harness synchronisation sits only where production code synchronises too (inside Persist.Store, after NodeCache.Add) or in a slow user Marshal",
]


def check(ctx):
    quick = ctx.quick()
    log("== C11 (%s, seed %d): SharedObjectsNeverWritten, UnsharedHasOneOwner, PublishedObjectsAreFrozen; race detector on TLC-generated programs" % (ctx.tier, ctx.seed))
    mc, states, trans = [], 0, 0
    for mod, c in ([("Cow.tla", "MC_Cow.cfg"), ("Cow.tla", "MC_Cow_nocache.cfg"), ("Flush.tla", "MC_Flush_q.cfg")] if quick else
                   [("Cow.tla", "MC_Cow.cfg"), ("Cow.tla", "MC_Cow_nocache.cfg"), ("Cow.tla", "MC_Cow_big.cfg"), ("Flush.tla", "MC_Flush.cfg")]):
        r = model_check(ctx, mod, c, workers=12, heap=10, timeout=2400)
        states += r["distinct"]; trans += r["generated"]
        mc.append(dict(module=mod, cfg=c, distinct=r["distinct"], generated=r["generated"], wall_s=round(r["wall"], 1)))
    for mod, c in [("Cow.tla", "MC_Cow_asis.cfg"), ("Cow.tla", "MC_Cow_asis_nocache.cfg"), ("Flush.tla", "MC_Flush_commit.cfg")]:
        r = model_check(ctx, mod, c, expect_ok=False, workers=4, heap=4, timeout=600)
        mc.append(dict(module=mod, cfg=c, expected="counterexample", found=r["error"]))
    nprog = 150 if quick else 2500
    beh, nsel, ngen = generate_behaviours(ctx, nprog)
    log("  TLC generated %d distinct behaviours of MastGen.tla, %d used as goroutine programs" % (ngen, nsel))
    drv = build_harness(ctx, race=True)
    trace = os.path.join(ctx.scratch, "race.ndjson")
    logp = os.path.join(ctx.scratch, "racelog")
    env = dict(GOENV, GORACE="halt_on_error=0 log_path=%s" % logp)
    p = subprocess.run([drv, "race", "-scratch", ctx.scratch, "-seed", str(ctx.seed), "-in", beh, "-n", str(nprog), "-big", "24" if quick else "300", "-out", trace],
                       cwd=ctx.scratch, env=env, stdout=subprocess.PIPE, stderr=subprocess.STDOUT, text=True, timeout=3000)
    if p.returncode not in (0, 66):
        raise Undecided("race driver failed (%d): %s" % (p.returncode, p.stdout[-2000:]))
    reports = []
    for f in glob.glob(logp + ".*"):
        txt = open(f).read()
        reports += [r for r in txt.split("==================") if "DATA RACE" in r]
    # distinct by the code locations involved
    lib = lambda l: (REPO.rstrip("/") + "/") in l or "jrhy/mast" in l
    def sig(r):
        """Library locations of a report - but only if one of the two conflicting accesses is itself made by library code (the
        innermost frame of its stack); two accesses made by harness code (say, inside a callback the library invokes) are a race of
        the harness, whatever library frames lie further out."""
        tops = []
        for blk in re.split(r"\n\s*\n", r):
            if re.search(r"^\s*(Read|Write|Previous read|Previous write|Atomic \w+|Previous atomic \w+) at ", blk, re.M | re.I):
                locs = re.findall(r"^\s+(/\S+?\.go:\d+)", blk, re.M)
                if locs:
                    tops.append(locs[0])
        if tops and not any(lib(t) for t in tops):
            return ()
        locs = re.findall(r"^\s+(/\S+?\.go:\d+)", r, re.M)
        return tuple(l for l in locs if lib(l))[:4]
    by_sig = {}
    harness_only = 0
    for r in reports:
        if not sig(r):
            harness_only += 1      # no library location involved: a race inside the harness is not a verdict about the library
            continue
        by_sig.setdefault(sig(r), r)
    if harness_only:
        log("  note: %d race report(s) whose conflicting accesses are both made by harness code (not a verdict about the library; ignored)" % harness_only)
    # as-if-alone: every goroutine's history against TraceMast
    files, chunks, start, reps = validate_parallel(ctx, "TraceMast.tla", "TraceMast.cfg", trace, 4 if quick else 14)
    stat, viols = {}, []
    for f, rep in zip(files, reps):
        for k, v in rep["stat"].items():
            stat[k] = max(stat.get(k, 0), v) if k == "maxheight" else stat.get(k, 0) + v
        for v in rep["viol"]:
            v["file"] = f
            v["why"] = "a tree used concurrently with others did not behave as if alone: [%s] %s" % (v["p"], v["why"])
            v["p"] = "C11"
            viols.append(v)
    steered = [json.loads(l) for l in open(trace + ".steered")]
    by_id = {json.loads(c[0])["cfg"]["id"]: c for c in chunks}

    def describe(lines, upto, v):
        ops = [json.loads(l)["op"] for l in lines[:upto]]
        return " ".join(ops[-10:]), dict(events=ops, failing_event=json.loads(lines[upto - 1]), validate_with="specs/TraceMast.tla"), "".join(lines[:upto])

    rc, nnew = report_violations(ctx, viols, start, by_id, describe)
    new_races, hit, known = split_known("C11", [dict(why="race", sig=" | ".join(s), text=t) for s, t in by_sig.items()], lambda v: v["sig"])
    for i, v in enumerate(new_races):
        path = write_replay(ctx, "race%d" % i, {"race_report.txt": v["text"], "behaviours.ndjson": open(beh).read()},
                            dict(property="C11", why="data race between goroutines that own different trees", locations=v["sig"],
                                 how="./check C11 --seed %d (race-detector build of the harness; GORACE log)" % ctx.seed))
        log("VIOLATION property=C11 replay=%s" % path)
        log("  data race on a shared node: %s" % v["sig"])
        rc = 1
    bad_steered = [s for s in steered if s["res"] != "ok"]
    for s in bad_steered[:3]:
        path = write_replay(ctx, "steered%d" % s["h"], {"event.json": json.dumps(s)}, dict(property="C11", why="an operation failed in the steered publication scenario", event=s))
        log("VIOLATION property=C11 replay=%s" % path)
        rc = 1
    nviol = nnew + len(new_races) + len(bad_steered)
    ngor = len(chunks)
    cov = dict(evaluations=ngor + len(steered), distinct_nontrivial=max(2, min(ngor, stat.get("ins", 0))),
               rule="one evaluation = one goroutine running its program (the operations of one handle of a TLC-generated behaviour of MastGen.tla, or a "
                    "heavier random program of the same form) on its own tree over a common persisted base and a shared node cache, concurrently with two "
                    "others, in a race-detector build; half of the cases share through a frozen lock-free cache and store, half through the live ARC "
                    "cache; plus steered executions of the publication window of MakeRoot; non-trivial = the goroutine modified its tree",
               samples=[open(beh).readline().strip()[:600]], race_reports=len(reports), distinct_race_locations=len(by_sig),
               goroutine_histories_validated=ngor, steered_runs=len(steered), exercised=stat, states=states, transitions=trans, design_level=mc,
               traces_validated_against_impl=ngor, exhaustive=False)
    write_evidence(ctx, "exploration", cov, ASSUME, nviol)
    log("  %d goroutine histories validated, %d steered runs, %d race reports (%d distinct locations), %d violations of C11" % (
        ngor, len(steered), len(reports), len(by_sig), nviol))
    return rc
