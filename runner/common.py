"""Shared machinery of the runner: scratch directories, harness build, TLC
invocation and output parsing, evidence and replay files, known findings."""
import json, os, re, shutil, subprocess, sys, tempfile, time

VERIF = os.path.dirname(os.path.dirname(os.path.abspath(__file__)))
REPO = os.environ.get("VERIF_REPO", "/repo")
SPECS = os.path.join(VERIF, "specs")
JAR = "/opt/veriftools/tla/tla2tools.jar:/opt/veriftools/tla/CommunityModules-deps.jar"

GOENV = dict(os.environ, GOFLAGS="-mod=mod", GOPROXY="off", GOSUMDB="off", GOTOOLCHAIN="local",
             CGO_ENABLED=os.environ.get("CGO_ENABLED", "1"))


class Undecided(Exception):
    """The machinery could not decide (exit 2)."""


class Ctx:
    def __init__(self, prop, tier, seed, keep=False):
        self.prop, self.tier, self.seed, self.keep = prop, tier, seed, keep
        self.t0 = time.time()
        base = os.environ.get("VERIF_SCRATCH", tempfile.gettempdir())
        self.scratch = tempfile.mkdtemp(prefix="mastverif-%s-" % prop, dir=base)
        self.drv = None
        self.notes = []

    def cleanup(self):
        if not self.keep:
            shutil.rmtree(self.scratch, ignore_errors=True)

    def sub(self, name):
        d = os.path.join(self.scratch, name)
        os.makedirs(d, exist_ok=True)
        return d

    def quick(self):
        return self.tier == "quick"


def log(*a):
    print(*a, flush=True)


def build_harness(ctx, race=False):
    """Compile the harness against /repo's current working tree."""
    hb = ctx.sub("hb-race" if race else "hb")
    for f in os.listdir(os.path.join(VERIF, "harness")):
        shutil.copy(os.path.join(VERIF, "harness", f), hb)
    with open(os.path.join(hb, "go.mod")) as f:
        gm = f.read().replace("=> /repo", "=> " + REPO)
    with open(os.path.join(hb, "go.mod"), "w") as f:
        f.write(gm)
    shutil.copy(os.path.join(REPO, "go.sum"), hb)
    out = os.path.join(hb, "mastdrv")
    cmd = ["go", "build", "-tags", "verif"] + (["-race"] if race else []) + ["-o", out, "."]
    p = subprocess.run(cmd, cwd=hb, env=GOENV, stdout=subprocess.PIPE, stderr=subprocess.STDOUT, text=True)
    if p.returncode != 0:
        raise Undecided("harness does not build against %s:\n%s" % (REPO, p.stdout[-3000:]))
    return out


def run_driver(ctx, drv, args, timeout=1800):
    p = subprocess.run([drv] + args, cwd=ctx.scratch, env=GOENV, stdout=subprocess.PIPE, stderr=subprocess.STDOUT,
                       text=True, timeout=timeout)
    if p.returncode != 0:
        raise Undecided("driver failed (%s): %s" % (" ".join(args), p.stdout[-3000:]))
    return p.stdout


STATE_RE = re.compile(r"(\d+) states generated, (\d+) distinct states found, (\d+) states left on queue")


def run_tlc(ctx, module, cfg, workers=8, heap=6, timeout=1200, extra=None, files=None, name=None, simulate=None):
    """Run TLC in a fresh scratch subdirectory holding a copy of the specs.
    Returns dict(ok, generated, distinct, out, error)."""
    d = ctx.sub("tlc-" + (name or cfg.replace(".cfg", "")))
    for f in os.listdir(SPECS):
        if f.endswith(".tla") or f.endswith(".cfg"):
            shutil.copy(os.path.join(SPECS, f), d)
    for src, dst in (files or {}).items():
        shutil.copy(src, os.path.join(d, dst))
    # (SANY unpacks the standard modules into java.io.tmpdir on every run: keep that inside the scratch directory)
    cmd = ["java", "-XX:+UseParallelGC", "-Xmx%dg" % heap, "-Xss512m", "-Djava.io.tmpdir=" + d, "-cp", JAR, "tlc2.TLC",
           "-workers", str(workers), "-config", cfg, "-metadir", os.path.join(d, "meta")]
    if simulate:
        cmd += ["-simulate", simulate]
    cmd += (extra or []) + [module]
    t0 = time.time()
    try:
        p = subprocess.run(cmd, cwd=d, stdout=subprocess.PIPE, stderr=subprocess.STDOUT, text=True, timeout=timeout)
    except subprocess.TimeoutExpired:
        raise Undecided("TLC timed out after %ds on %s/%s" % (timeout, module, cfg))
    out = p.stdout
    res = dict(out=out, wall=time.time() - t0, generated=0, distinct=0, ok=False, error=None, dir=d)
    m = None
    for m in STATE_RE.finditer(out):
        pass
    if m:
        res["generated"], res["distinct"] = int(m.group(1)), int(m.group(2))
    if "Model checking completed. No error has been found." in out or (simulate and p.returncode == 0):
        res["ok"] = True
    else:
        errs = [ln for ln in out.splitlines() if ln.startswith("Error:")]
        res["error"] = "; ".join(errs[:3]) or ("exit %d" % p.returncode)
        if "OutOfMemory" in out or "StackOverflow" in out:
            raise Undecided("TLC ran out of memory/stack on %s/%s" % (module, cfg))
    shutil.rmtree(os.path.join(d, "meta"), ignore_errors=True)
    shutil.rmtree(os.path.join(d, "states"), ignore_errors=True)
    return res


APALACHE = shutil.which("apalache-mc") or "/opt/veriftools/apalache/bin/apalache-mc"


def run_apalache(ctx, module, cinit, init, inv, length, timeout=900, name=None):
    """One Apalache obligation. Returns "ok", "error" (a counterexample was found) or "unknown" (tool missing, timeout, crash)."""
    d = ctx.sub("apa-" + (name or "%s-%s-%s-%d" % (cinit, init, inv, length)))
    for f in os.listdir(SPECS):
        if f.endswith(".tla"):
            shutil.copy(os.path.join(SPECS, f), d)
    cmd = [APALACHE, "check", "--cinit=" + cinit, "--init=" + init, "--inv=" + inv, "--length=%d" % length,
           "--out-dir=" + os.path.join(d, "out"), module]
    t0 = time.time()
    try:
        p = subprocess.run(cmd, cwd=d, stdout=subprocess.PIPE, stderr=subprocess.STDOUT, text=True, timeout=timeout)
        out = p.stdout
    except (subprocess.TimeoutExpired, OSError) as e:
        out = "not completed: %s" % e
    res = "ok" if "The outcome is: NoError" in out else "error" if "The outcome is: Error" in out else "unknown"
    shutil.rmtree(os.path.join(d, "out"), ignore_errors=True)
    log("  Apalache %-18s %-8s => %-8s length %d  %5.1fs  %s" % (cinit, init, inv, length, time.time() - t0, res))
    return res, out


TLAPM = shutil.which("tlapm") or "/opt/veriftools/tlapm/bin/tlapm"


def run_tlapm(ctx, module, subst=None, timeout=600, name=None):
    """Have the TLA+ proof system check the proofs of a module. Returns (proved, failed, total) - (None, None, None) if it did not run.
    Informative only: back-end time-outs under load make a failed obligation unreliable, so this never changes a verdict."""
    d = ctx.sub("tlapm-" + (name or module.replace(".tla", "")))
    for f in os.listdir(SPECS):
        if f.endswith(".tla"):
            shutil.copy(os.path.join(SPECS, f), d)
    if subst:
        src = open(os.path.join(d, module)).read()
        assert subst[0] in src
        open(os.path.join(d, module), "w").write(src.replace(subst[0], subst[1]))
    t0 = time.time()
    try:
        p = subprocess.run([TLAPM, "--threads", "8", module], cwd=d, stdout=subprocess.PIPE, stderr=subprocess.STDOUT, text=True, timeout=timeout)
        out = p.stdout
    except (subprocess.TimeoutExpired, OSError) as e:
        out = "not completed: %s" % e
    m = re.search(r"All (\d+) obligations? proved", out)
    f = re.search(r"(\d+)/(\d+) obligations? failed", out)
    res = (int(m.group(1)), 0, int(m.group(1))) if m else (int(f.group(2)) - int(f.group(1)), int(f.group(1)), int(f.group(2))) if f else (None, None, None)
    log("  TLAPS %-24s %s  %5.1fs" % (name or module, "all %d obligations proved" % res[0] if m else "%s of %s obligations failed" % (res[1], res[2]) if f else "did not run", time.time() - t0))
    return res


def model_check(ctx, module, cfg, expect_ok=True, **kw):
    """Design-level run. A violated invariant here is a defect of the
    specification (or of the intended design), not of the code: exit 2."""
    r = run_tlc(ctx, module, cfg, **kw)
    if expect_ok and not r["ok"]:
        raise Undecided("design-level model %s/%s is violated: %s\n%s" % (module, cfg, r["error"], r["out"][-2500:]))
    if not expect_ok and r["ok"]:
        raise Undecided("non-vacuity run %s/%s was expected to produce a counterexample and did not" % (module, cfg))
    log("  TLC %-28s %9d generated %8d distinct  %5.1fs  %s" % (cfg, r["generated"], r["distinct"], r["wall"],
                                                                  "ok" if r["ok"] else "counterexample (expected)"))
    return r


REPORT_RE = re.compile(r'^<<"REPORT", "(.*)">>$', re.M)


def validate_trace(ctx, module, cfg, trace_path, name=None, heap=4, timeout=1800, trace_name="trace.ndjson"):
    """Have TLC check a recorded trace. Returns the REPORT record."""
    r = run_tlc(ctx, module, cfg, workers=1, heap=heap, timeout=timeout, files={trace_path: trace_name}, name=name)
    m = REPORT_RE.search(r["out"])
    if not r["ok"] or not m:
        raise Undecided("trace validation %s did not complete: %s\n%s" % (module, r["error"], r["out"][-3000:]))
    rep = json.loads(json.loads('"' + m.group(1) + '"'))
    n = sum(1 for _ in open(trace_path))
    if rep.get("consumed") != n:
        raise Undecided("trace specification consumed %s of %d events" % (rep.get("consumed"), n))
    rep["wall"] = r["wall"]
    rep["events"] = n
    return rep


from concurrent.futures import ThreadPoolExecutor


def split_traces(path, parts, outdir, is_start=None, ident=None):
    """Split an ndjson trace file into `parts` files at reset boundaries."""
    chunks, cur = [], []
    with open(path) as f:
        for ln in f:
            if (is_start(ln) if is_start else ln.startswith('{"op":"reset"')) and cur:
                chunks.append(cur)
                cur = []
            cur.append(ln)
    if cur:
        chunks.append(cur)
    parts = max(1, min(parts, len(chunks)))
    files = []
    start = {}
    per = (len(chunks) + parts - 1) // parts
    for i in range(parts):
        sel = chunks[i * per:(i + 1) * per]
        if not sel:
            continue
        p = os.path.join(outdir, "part%02d.ndjson" % i)
        n = 1
        with open(p, "w") as f:
            for c in sel:
                start[(p, ident(c[0]) if ident else json.loads(c[0])["cfg"]["id"])] = n
                f.writelines(c)
                n += len(c)
        files.append(p)
    return files, chunks, start


def validate_parallel(ctx, module, cfg, trace, parts, is_start=None, ident=None):
    files, chunks, start = split_traces(trace, parts, ctx.sub("parts"), is_start, ident)
    reports = []
    with ThreadPoolExecutor(max_workers=len(files)) as ex:
        futs = [ex.submit(validate_trace, ctx, module, cfg, f, "val%02d" % i, 3) for i, f in enumerate(files)]
        for f in futs:
            reports.append(f.result())
    return files, chunks, start, reports



# ---------------------------------------------------------------- findings
def load_findings():
    p = os.path.join(VERIF, "known_findings.json")
    if not os.path.exists(p):
        return []
    with open(p) as f:
        return json.load(f).get("findings", [])


def split_known(prop, viols, sig):
    """Partition violations into (new, known) using known_findings.json.
    sig(v) is the identifying signature of a violation; a finding lists the
    signatures it covers."""
    known = [f for f in load_findings() if f["property"] == prop]
    new, hit = [], {}
    for v in viols:
        s = sig(v)
        f = next((f for f in known if s in f.get("signatures", [])), None)
        if f:
            hit.setdefault(f["id"], []).append(v)
        else:
            new.append(v)
    return new, hit, known


def report_violations(ctx, viols, start, by_id, describe, sig=lambda v: v["why"], quiet_unexercised=False):
    """Print KNOWN-FINDING / VIOLATION lines for this property's violations and write replay directories.
    describe(lines, upto, v) -> (headline, info dict, replay text)."""
    prop = ctx.prop
    mine = [v for v in viols if v["p"] == prop]
    others = sorted(set(v["p"] for v in viols if v["p"] != prop))
    if others:
        log("  note: the same executions also violate %s (reported by those properties' checks)" % ", ".join(others))
    new, hit, known = split_known(prop, mine, sig)
    rc = 0
    for f in known:
        if f["id"] in hit:
            log("KNOWN-FINDING: property=%s %s (%d occurrences this run)" % (prop, f["what"], len(hit[f["id"]])))
        elif not quiet_unexercised:
            log("KNOWN-FINDING: property=%s %s (listed; not exercised by this run)" % (prop, f["what"]))
    seen = {}
    for v in sorted(new, key=lambda v: (v["tr"], v["l"])):
        seen[v["why"]] = seen.get(v["why"], 0) + 1
        if seen[v["why"]] > 3:
            continue
        lines = by_id[v["tr"]]
        upto = v["l"] - start[(v["file"], v["tr"])] + 1   # index of the failing event inside its history
        headline, info, text = describe(lines, upto, v)
        info.update(property=prop, why=v["why"], tier=ctx.tier, seed=ctx.seed,
                    how="./check %s --tier %s --seed %d reproduces; trace.ndjson holds the recorded execution up to the failing event" % (prop, ctx.tier, ctx.seed))
        path = write_replay(ctx, "tr%d" % v["tr"], {"trace.ndjson": text}, info)
        log("VIOLATION property=%s replay=%s" % (prop, path))
        log("  %s  %s" % (v["why"], headline))
        rc = 1
    extra = sum(max(0, n - 3) for n in seen.values())
    if extra:
        log("  (+%d further occurrences of the same kinds)" % extra)
    return rc, len(new)


# ---------------------------------------------------------------- output
def write_replay(ctx, tag, files, info):
    d = os.path.join(VERIF, "replays", "%s-%s-seed%d-%s" % (ctx.prop, ctx.tier, ctx.seed, tag))
    shutil.rmtree(d, ignore_errors=True)
    os.makedirs(d)
    for name, content in files.items():
        with open(os.path.join(d, name), "w") as f:
            f.write(content)
    with open(os.path.join(d, "violation.json"), "w") as f:
        json.dump(info, f, indent=1)
    return d


def write_evidence(ctx, level, coverage, assumptions, violations):
    ev = dict(property_id=ctx.prop, tier=ctx.tier, seed=ctx.seed, level=level, coverage=coverage,
              assumptions=assumptions, wall_s=round(time.time() - ctx.t0, 1), violations=violations)
    evdir = os.environ.get("VERIF_EVIDENCE_DIR", os.path.join(VERIF, "evidence"))   # tools/try_mutant.sh keeps its runs out of evidence/
    os.makedirs(evdir, exist_ok=True)
    with open(os.path.join(evdir, ctx.prop + ".json"), "w") as f:
        json.dump(ev, f, indent=1)
    return ev


BEH_RE = re.compile(r'^<<"BEH", "(.*)">>$')


def generate_behaviours(ctx, n, depth=24, seed=None):
    """Have TLC simulate MastGen.tla and return a file of distinct behaviours (one JSON object per line)."""
    d = ctx.sub("tlc-gen")
    for f in os.listdir(SPECS):
        if f.endswith(".tla") or f.endswith(".cfg"):
            shutil.copy(os.path.join(SPECS, f), d)
    cfg = open(os.path.join(d, "MastGen.cfg")).read().replace("Depth = 24", "Depth = %d" % depth)
    with open(os.path.join(d, "MastGenRun.cfg"), "w") as f:
        f.write(cfg)
    cmd = ["java", "-XX:+UseParallelGC", "-Xmx4g", "-Xss512m", "-cp", JAR, "tlc2.TLC", "-workers", "1", "-config", "MastGenRun.cfg",
           "-metadir", os.path.join(d, "meta"), "-simulate", "num=%d" % max(20, n // 20), "-depth", str(depth + 2),
           "-seed", str(seed if seed is not None else ctx.seed), "MastGen.tla"]
    try:
        p = subprocess.run(cmd, cwd=d, stdout=subprocess.PIPE, stderr=subprocess.STDOUT, text=True, timeout=900)
    except subprocess.TimeoutExpired:
        raise Undecided("TLC simulation of MastGen.tla timed out")
    seen, out = set(), []
    for ln in p.stdout.splitlines():
        m = BEH_RE.match(ln.strip())
        if m:
            js = json.loads('"' + m.group(1) + '"')
            if js not in seen:
                seen.add(js)
                out.append(js)
    shutil.rmtree(os.path.join(d, "meta"), ignore_errors=True)
    if not out:
        raise Undecided("TLC produced no behaviour from MastGen.tla:\n" + p.stdout[-1500:])
    # spread the selection over the whole simulation
    step = max(1, len(out) // n)
    sel = out[::step][:n]
    path = os.path.join(ctx.scratch, "behaviours.ndjson")
    with open(path, "w") as f:
        for js in sel:
            f.write(js + "\n")
    return path, len(sel), len(out)


def generate_transitions(ctx, cfgs):
    """TLC enumerates every single-step transition of MastTrans.tla for the given configurations (and checks each against the reference)."""
    path = os.path.join(ctx.scratch, "transitions.ndjson")
    total = 0
    with open(path, "w") as f:
        for c in cfgs:
            r = run_tlc(ctx, "MastTrans.tla", c, workers=8, heap=4, timeout=1200, name="trans-" + c.replace(".cfg", ""))
            if not r["ok"]:
                raise Undecided("MastTrans.tla %s: %s" % (c, r["error"]))
            for ln in r["out"].splitlines():
                m = BEH_RE.match(ln.strip())
                if m:
                    f.write(json.loads('"' + m.group(1) + '"') + "\n")
                    total += 1
    return path, total
